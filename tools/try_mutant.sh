#!/usr/bin/env bash
# tools/try_mutant.sh <worktree> <name> <check ids...>
# 1. confirm the seeded change in its scratch worktree (tests pass, demo fails with / passes without)
# 2. apply it to /repo, run the listed checks (quick tier), undo
set -u
wt="$1"; name="$2"; shift 2
out=/verif/seeded/$name
mkdir -p "$out"
cd "$wt" || exit 2
cp ${MUTDIR:-mutant}/patch.diff "$out/patch.diff"
for f in ${MUTDIR:-mutant}/*; do case "$f" in *patch.diff) ;; *) cp -r "$f" "$out/";; esac; done
echo "== confirm in $wt"
git diff -- src > /tmp/cur.diff
if ! diff -q /tmp/cur.diff ${MUTDIR:-mutant}/patch.diff >/dev/null; then echo "note: worktree diff differs from patch.diff (re-applying patch on clean tree)"; git checkout -- src; git apply ${MUTDIR:-mutant}/patch.diff || exit 2; fi
tests_with=$(cargo test --features cli --offline 2>&1 | grep -E "^test result" | awk '{p+=$4; f+=$6} END {print p" passed "f" failed"}')
cargo build --features cli --offline >/dev/null 2>&1
demo_with=0; if [ -f ${MUTDIR:-mutant}/demo.sh ]; then (bash ${MUTDIR:-mutant}/demo.sh >/tmp/demo_with.log 2>&1); demo_with=$?; fi
git apply -R ${MUTDIR:-mutant}/patch.diff
cargo build --features cli --offline >/dev/null 2>&1
demo_without=0; if [ -f ${MUTDIR:-mutant}/demo.sh ]; then (bash ${MUTDIR:-mutant}/demo.sh >/tmp/demo_without.log 2>&1); demo_without=$?; fi
git apply ${MUTDIR:-mutant}/patch.diff
echo "tests with change: $tests_with; demo with change exit=$demo_with; demo without change exit=$demo_without"
echo "== run checks against /repo + patch"
cd /verif
git -C /repo apply "$out/patch.diff" || { echo "patch does not apply to /repo"; exit 2; }
results=""
for c in "$@"; do
  o=$(./check "$c" quick --no-evidence 2>&1); rc=$?
  cls=$(echo "$o" | grep -o "class=[a-z0-9-]*" | sort -u | tr '\n' ' ')
  echo "  $c quick: exit=$rc $cls"
  results="$results{\"check\":\"$c\",\"tier\":\"quick\",\"exit\":$rc,\"classes\":\"$cls\"},"
done
git -C /repo checkout -- .
git -C /repo status --short | head -3
cat > "$out/run.json" <<EOJ
{"tests_with_change":"$tests_with","demo_exit_with_change":$demo_with,"demo_exit_without_change":$demo_without,"checks":[${results%,}]}
EOJ
