#!/usr/bin/env python3
"""Writes /verif/MANIFEST.json from the table below (single source of truth)."""
import json, os
here = os.path.dirname(os.path.abspath(__file__))
baseline = "cd /repo && cargo test --workspace --no-fail-fast --offline"
CHECKS = {
 "C05": ("fault_enumeration", "§3 C05", "fault catalogue (24 basis/delta faults + raw delta-file corruption) applied to sampled valid pairs; both engines run against a simulated basis stream that records every offset served and an output sink that records every byte; `copia patch` on simulated files",
         "Success is judged on the bytes actually written to the sink against the checksum of the delta as given; panics are caught and count as the abort they are in the shipped profile; the basis seam shows any read outside the supplied basis. Found and repaired: abort on a block size read from the file.",
         "faults enumerated per sampled pair; pairs sampled"),
 "C20": ("fault_enumeration", "§3 C20", "codec streams under truncation at chosen offsets, per-byte header corruption, payload corruption, random bytes, read errors and benign chunking/Interrupted; `copia delta|patch` on hostile signature/delta files in the simulator with allocator monitor and step budget",
         "Decoding must yield a value or an error for every fault position, never a panic or an allocation beyond the payload bound (counting allocator), and invalid magic/version/type/length must always be an error; the CLI must exit with a report, not crash, over-allocate or hang. Found and repaired: 4 GiB allocation driven by Copy.len, abort on hostile block size.",
         "the pure round-trip identity is only the control batch; address-space limit stand-in 2 GiB"),
 "C04": ("exploration", "§3 C04", "real `sync -r` in all three directions on simulated hosts: real tokio tasks whose simulated operations complete in the scheduler's seeded order, ssh + bash + coreutils stand-in on the remote host, hostile names; post-conditions against an independent reference plan and the per-call trace",
         "The completion order of the parallel transfers and of each transfer's sub-steps (and of the remote shell children) is the scheduler's seeded choice; the trace gives per-call evidence that quick-check matches and out-of-plan files were never touched and that the source saw no mutating call. Found and repaired: newline-delimited remote lists, `mv` into an occupying directory.",
         "remote side is bash + GNU tools as the shipped commands assume; ssh reliable ordered stream; stub fidelity spot-checked against real bash"),
 "C09": ("fault_enumeration", "§3 C09", "kill of the copia process before every file-system-mutating or pipe-write call of a reference run (all k up to a cap, else seeded k), orphaned children scheduled to completion, then re-run (also after a same-size edit of the source; one-byte pipes so that the NUL-delimited delete / directory lists can be cut at every byte)",
         "Every sampled scenario is executed once per kill point; after each kill all orphaned remote commands run on, every live destination path must hold old or complete new bytes, and the re-run must reproduce the uninterrupted destination. Found and repaired: push published a truncated file when the sender died.",
         "kill lands between system calls; orphan semantics as real ssh (EOF on stdin)"),
 "C14": ("exploration", "§3 C14", "the same simulated `sync -r` command run twice; second run must plan nothing and issue zero mutating calls on either host (trace), trees identical to the nanosecond; first run's reported plan equals the stated quick-check rule",
         "Sub-second, zero and far-future mtimes and hostile names travel through the remote quoting and `touch -d @` / `find -printf %T@` twice; the no-op claim is decided on the call trace, not on output text alone.",
         "stub models of touch -d @N and find %T@ (GNU formats)"),
 "C15": ("exploration", "§3 C15", "real run and --dry-run from the same simulated world snapshot, names and exclude patterns over {a,b,*,?,.,/}; zero mutating calls in dry runs (trace), printed actions == reference plan == real run's effects; bisync --dry-run compared with a real bisync from the same snapshot",
         "Both runs start from one cloned world, so 'the actions printed are exactly the ones a real run performs' is a direct differential; excludes are judged by an independent matcher. Found and repaired: a pattern '*' consumed as a literal by a '*' in the name.",
         "as C04 and C02"),
 "C03": ("exploration", "§3 C03", "N real `copia serve` processes + client actors under a seeded baton scheduler (uniform / sticky / PCT / sequential) over simulated FS, flock and pipes; Wing-Gong-Lowe linearizability search of the recorded history against a sequential CAS map, final tree included; fault batch: one server killed before a seeded file-system call or one of its calls failing with an injected errno, unanswered requests linearized as optional",
         "Every file-system, flock and pipe step of every server is a scheduling point chosen from the run seed, so interleavings such as 'B slips between A's stage and A's rename' are reached thousands of times per second and replay exactly. The oracle is an exact linearizability search (histories <= 24 ops) with the final hub tree as part of the model state. It found four genuine concurrency defects in serve.rs (shared staging file, non-atomic Get, non-atomic List) and, with injected errors, three acknowledgement defects (commit acknowledged although rename failed, delete acknowledged although unlink failed, unreadable file treated as absent and overwritten), all repaired.",
         "shim call = atomic step; advisory flock; atomic rename; clients use the real wire codec"),
 "C10": ("exploration", "§3 C10", "same simulation with invalid Puts, server kills, injected errno / short writes and a second wave of servers with reused process ids after a kill; path invariant evaluated by the kernel after every applied step; Get len/hash/bytes agreement",
         "The invariant 'each live hub path holds initial content or the complete body of one verified Put addressed to it' is evaluated inside the scheduler after every step that changes the file system, so transient states between two servers' steps are observed, not just end states. Kills are placed before the k-th file-system call of a server.",
         "as C03; kill releases flock and descriptors as the OS does"),
 "C11": ("exploration", "§3 C11", "simulated sessions with hostile path strings against real serve on a file system with sentinels outside ROOT; every server call in the trace is checked for its physical location; differential control session without the refused requests",
         "The trace records the resolved physical path of every call the server makes, so 'never opens/creates/renames/removes anything outside ROOT' is checked on every call rather than inferred from end states; refused requests must leave replies and tree identical to a session that never sent them.",
         "no symlinks in the served tree; SimFs path resolution model"),
 "C12": ("exploration", "§3 C12", "byte-stream injection (random, mutated/duplicated/reordered frames, hostile length prefixes and CBOR heads, cut at chosen offsets, seeded chunking) into real serve; allocator monitor, step budget, FS monitor, differential resynchronisation",
         "Totality (no panic), termination after input close, the 1 MiB allocation bound (counting allocator on the server's thread), no effect before a valid prologue+request (trace + bytes-read accounting) and staying in step after error replies are each decided per run.",
         "allocation bound measured as largest single request of the server's code; spin = step budget"),
 "C13": ("exploration", "§3 C13", "histories of real `hub-sync` runs by several clients (each spawning a real serve, locally or through the ssh/shell stand-in), solo and overlapped under the seeded scheduler; post-conditions of exit 0 / exit != 0, traced second run",
         "Overlapped clients produce stale listings (List before, Put after the other's commit) under the scheduler's control; conservation and retrievability are checked on the hub tree, and the immediate second run must issue no write.",
         "ssh = reliable ordered stream to remote bash; acknowledgements read from hub-sync's report"),
 "C02": ("exploration", "§3 C02", "seeded histories of user edits and real `copia bisync` runs on simulated file systems (incl. runs aborted by injected I/O errors); version-conservation oracle over the recorded history",
         "Thousands of multi-step histories per second — including paths deleted on both sides and recreated, repeated conflicts with the same losing content and edits to conflict-copies — each checked run by run against the statement's disappearance rule with an independently tracked last-common tree. Two genuine defects were found this way (one repaired, two root-cause classes recorded as known findings).",
         "regular files; one bisync at a time; SimFs POSIX model; a version survives only at its path or a `.conflict-*` sibling"),
 "C06": ("exploration", "§3 C06", "same history simulation; per completed run A==B, archive==tree, immediate second run is a traced no-op; metamorphic re-execution with shifted clocks and swapped root order",
         "Convergence, record exactness and idempotence are checked after every completed run of every history, and the whole history is re-executed under two transformations that must not change any byte.",
         "clash-free trees; as C02"),
 "C07": ("fault_enumeration", "§3 C07", "archive storage-fault enumeration (absent, zero-length, truncation points, garbage, wrong shapes, versions, foreign pair, only .bak/.tmp; re-pointed root symlink; stale archive of the mirrored pair) on states reached by simulated histories",
         "For each sampled state in which a trusted base would delete something, every fault of the catalogue is applied to a clone of the world and the real bisync must print the safe-mode banner, unlink nothing and keep every version on both sides.",
         "fault = change of the stored archive bytes before the run; as C02"),
 "C08": ("fault_enumeration", "§3 C08", "process kill before every file-system-mutating call of a reference run (all k), recovery runs, and call-order (fsync/rename/record) checks over the recorded trace",
         "Every kill point of every sampled scenario (the nine named ones plus random histories) is executed; after each kill all live paths must hold complete old-or-new versions, the archive must be old/absent/new, and recovery must reach the uninterrupted result. The record-after-flush clause is decided on the traced call order (found and repaired a missing fsync).",
         "kill lands between system calls; durability judged on call order, no power-loss model"),
 "C01": ("exploration", "§3 C01", "seeded simulation of the I/O schedule (chunking, Interrupted, Pending, short writes, hard errors) over real sync/async engines, CLI chain and single-file sync; four-way engine differential",
         "Every stream the engines touch is a simulated stream whose per-call behaviour is drawn from the run seed; signatures and deltas must be identical across engines and across two independent chunkings of the same input, and patch output must equal the source. Inputs and block sizes are sampled by structural generators; the simulator decides the schedule dimension.",
         "sampled inputs; rayon pool outside the seam (order-independent); SimFs/tokio-driver stubs under the CLI"),
}
NA = {
 "C16": "pure function of (basis, source, block size): both engines read the whole input into memory before scanning, so no schedule, chunking, clock or fault can influence the literal count; deciding it is input generation against a reference greedy scan, not simulation (DESIGN.md §4)",
 "C17": "pure sequential arithmetic on a Copy value: no I/O, shared state, time or interleaving for a simulator to control (DESIGN.md §4)",
 "C18": "total pure function over a small finite quotient (decision table); nothing to schedule or fault (DESIGN.md §4)",
 "C19": "pure planner / matcher / parser functions of their arguments; their system-level consequences are covered by C04/C14/C15 (DESIGN.md §4)",
}
PENDING = {}
ids = ["C%02d" % i for i in range(1, 21)]
checks = []
for i in ids:
    if i in CHECKS:
        cat, ref, tech, text, note = CHECKS[i]
        checks.append({
            "property_id": i,
            "quick_cmd": f"./check {i} quick",
            "thorough_cmd": f"./check {i} thorough",
            "evidence_file": f"evidence/{i}.json",
            "replay_cmd_template": "./check --replay {path}",
            "engine": "simcheck",
            "level_claimed": {"category": cat, "text": text, "design_ref": ref},
            "level_note": note,
            "technique": "deterministic simulation with fault injection: " + tech,
        })
na = [{"property_id": k, "reason": v} for k, v in NA.items()]
for i in ids:
    if i not in CHECKS and i not in NA:
        na.append({"property_id": i, "reason": "check designed (DESIGN.md §3) but not yet registered in this commit: its simulation harness is still being built; it will be claimed once it passes the determinism and sensitivity protocol"})
m = {
 "version": 1,
 "setup_cmd": "./setup.sh",
 "hooks": {
   "guard": "paiml_copia_verif",
   "enable": "rustc --cfg paiml_copia_verif via /verif/sim/.cargo/config.toml [build] rustflags; the harness builds /repo/src through a generated shadow manifest (sim/copia-shadow) and #[path]-includes a line-for-line copy of /repo/src/bin/copia/*.rs made by harness/build.rs on every build from /repo's working tree, in which only the inherent file-system methods of std::path::Path (.exists() .is_dir() .metadata() ...) are renamed so that they resolve to the simulated file system",
   "baseline_off_cmd": baseline,
   "source_commits": ["1de5a9c", "4221c93", "a250ddf"],
   "add_only": True,
 },
 "engines": [{"name": "simcheck", "path": "sim/", "serves_properties": sorted(CHECKS), "kind_free_text": "own deterministic simulator: in-memory POSIX file systems, pipes, process table, flock, clock behind a module-level alias of std/tokio/fs2; baton scheduler over real threads + real tokio current-thread runtime; seeded fault plans; replay files"}],
 "checks": checks,
 "not_applicable": na,
 "notes": "One integer (VERIF_SEED, default 20260925) decides every run. Exit 0 held / 1 VIOLATION / 2 harness error.",
}
json.dump(m, open(os.path.join(here, "..", "MANIFEST.json"), "w"), indent=1)
print("MANIFEST.json:", len(checks), "checks,", len(na), "not applicable")
