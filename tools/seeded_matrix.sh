#!/usr/bin/env bash
# tools/seeded_matrix.sh [name-glob]
# Re-runs every kept seeded change against the CURRENT machinery: applies the patch to /repo,
# runs the quick tier of the property's own check (plus the checks its meta.json lists under
# first_results), undoes it, and writes seeded/MATRIX.json.  /repo must be clean before and is
# clean afterwards.  Exit 1 if some change is caught by no check.
set -u
cd /verif
[ -z "$(git -C /repo status --short)" ] || { echo "/repo not clean"; exit 2; }
pat="${1:-*}"
python3 - "$pat" <<'PY'
import json,os,subprocess,sys,glob,re,time
pat=sys.argv[1]
out={}
missed=[]
for d in sorted(glob.glob(f'/verif/seeded/{pat}/')):
    name=os.path.basename(d.rstrip('/'))
    meta=json.load(open(d+'meta.json'))
    own=meta['property']
    checks=[own]
    for c in (meta.get('first_results') or {}).get('checks',[]):
        if c['check'] not in checks: checks.append(c['check'])
    for c in meta.get('caught_by',[]):
        m=re.match(r'(C\d\d)',c)
        if m and m.group(1) not in checks: checks.append(m.group(1))
    if subprocess.run(['git','-C','/repo','apply',d+'patch.diff']).returncode!=0:
        out[name]={'error':'patch does not apply'}; missed.append(name); continue
    res=[]
    try:
        for c in checks:
            t=time.time()
            p=subprocess.run(['./check',c,'quick','--no-evidence'],capture_output=True,text=True)
            cls=sorted(set(re.findall(r'class=([a-z0-9-]+)',p.stdout+p.stderr)))
            res.append({'check':c,'exit':p.returncode,'classes':cls,'wall_s':round(time.time()-t,1)})
            print(f'{name:70s} {c} exit={p.returncode} {" ".join(cls)[:100]}',flush=True)
    finally:
        subprocess.run(['git','-C','/repo','checkout','--','.'])
    caught=[r['check'] for r in res if r['exit']==1]
    out[name]={'property':own,'caught_by':caught,'results':res}
    if not caught and not meta.get('expected_uncaught'): missed.append(name)
    if not caught and meta.get('expected_uncaught'): out[name]['known_limit']=True
if pat!='*' and os.path.exists('/verif/seeded/MATRIX.json'):
    # a partial run updates its entries and keeps the others
    old=json.load(open('/verif/seeded/MATRIX.json'))
    merged=old.get('changes',{}); merged.update(out); out=merged
    missed=sorted(n for n,v in out.items() if not v.get('caught_by') and not v.get('known_limit'))
notown=sorted(n for n,v in out.items() if v.get('caught_by') and v.get('property') not in v['caught_by'])
json.dump({'generated_by':'tools/seeded_matrix.sh','tier':'quick','changes':out,'missed':missed,'caught_only_by_another_propertys_check':notown},open('/verif/seeded/MATRIX.json','w'),indent=1)
print('caught only by another property\'s check:',notown)
print('missed:',missed)
sys.exit(1 if missed else 0)
PY
rc=$?
git -C /repo status --short | head -3
exit $rc
