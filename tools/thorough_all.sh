#!/usr/bin/env bash
# Run every claimed check's thorough tier once (background exploration; evidence not kept).
cd "$(dirname "$0")/.."
for c in ${THOROUGH_ORDER:-C03 C10 C09 C05 C12 C01 C13 C08 C02 C06 C04 C14 C15 C11 C20 C07}; do
  echo "=== $c thorough $(date +%T)"
  ./check $c thorough --no-evidence 2>&1 | grep -E "^C[0-9]+:|VIOLATION|HARNESS|class=|WARN|KNOWN" | cut -c1-400
done
echo "=== done $(date +%T)"
