#!/usr/bin/env bash
# Run every claimed check's thorough tier once (background exploration; evidence not kept).
cd "$(dirname "$0")/.."
for c in C02 C06 C03 C10 C04 C09 C13 C14 C15 C07 C08 C11 C12 C01 C05 C20; do
  echo "=== $c thorough $(date +%T)"
  ./check $c thorough --no-evidence 2>&1 | grep -E "^C[0-9]+:|VIOLATION|HARNESS|class=|WARN|KNOWN" | cut -c1-400
done
echo "=== done $(date +%T)"
