#!/usr/bin/env bash
# Verifies that every seeded change still applies to /repo's HEAD (run after any fix: commit).
cd /repo || exit 2; rc=0
for d in /verif/seeded/*/; do
  if git apply --check "$d/patch.diff" 2>/dev/null; then echo "applies  $(basename $d)"; else echo "STALE    $(basename $d)"; rc=1; fi
done
exit $rc
