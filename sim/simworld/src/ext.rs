//! Extension traits that give the inherent file-system methods of `std::path::Path`
//! (`exists`, `is_dir`, `metadata`, `canonicalize`, ...) a simulated counterpart.
//!
//! The module-level alias seam replaces `std::fs::*` functions, but a *method* on a real
//! `Path` would still ask the real kernel. The harness build therefore compiles a copy of the
//! CLI sources in which those method names are renamed to `sim_<name>` (see harness/build.rs);
//! the traits here resolve the renamed calls by receiver type: paths go to the simulated
//! file system, everything else (Metadata, FileType, File, DirEntry) to its own method.

use crate::shim::{std_fs, tokio_fs};
use std::future::Future;
use std::io;
use std::path::{Path, PathBuf};
use std::pin::Pin;

pub trait SimPathFs {
    fn sim_exists(&self) -> bool;
    fn sim_try_exists(&self) -> io::Result<bool>;
    fn sim_is_file(&self) -> bool;
    fn sim_is_dir(&self) -> bool;
    fn sim_is_symlink(&self) -> bool;
    fn sim_metadata(&self) -> io::Result<std_fs::Metadata>;
    fn sim_symlink_metadata(&self) -> io::Result<std_fs::Metadata>;
    fn sim_canonicalize(&self) -> io::Result<PathBuf>;
    fn sim_read_dir(&self) -> io::Result<std_fs::ReadDir>;
    fn sim_read_link(&self) -> io::Result<PathBuf>;
}

impl SimPathFs for Path {
    fn sim_exists(&self) -> bool {
        std_fs::metadata(self).is_ok()
    }
    fn sim_try_exists(&self) -> io::Result<bool> {
        match std_fs::metadata(self) {
            Ok(_) => Ok(true),
            Err(e) if e.kind() == io::ErrorKind::NotFound => Ok(false),
            Err(e) => Err(e),
        }
    }
    fn sim_is_file(&self) -> bool {
        std_fs::metadata(self).map(|m| m.is_file()).unwrap_or(false)
    }
    fn sim_is_dir(&self) -> bool {
        std_fs::metadata(self).map(|m| m.is_dir()).unwrap_or(false)
    }
    fn sim_is_symlink(&self) -> bool {
        std_fs::symlink_metadata(self).map(|m| m.is_symlink()).unwrap_or(false)
    }
    fn sim_metadata(&self) -> io::Result<std_fs::Metadata> {
        std_fs::metadata(self)
    }
    fn sim_symlink_metadata(&self) -> io::Result<std_fs::Metadata> {
        std_fs::symlink_metadata(self)
    }
    fn sim_canonicalize(&self) -> io::Result<PathBuf> {
        std_fs::canonicalize(self)
    }
    fn sim_read_dir(&self) -> io::Result<std_fs::ReadDir> {
        std_fs::read_dir(self)
    }
    fn sim_read_link(&self) -> io::Result<PathBuf> {
        std_fs::read_link(self)
    }
}

/// `is_file` / `is_dir` / `is_symlink` on values that already came from the simulated world.
pub trait SimKind {
    fn sim_is_file(&self) -> bool;
    fn sim_is_dir(&self) -> bool;
    fn sim_is_symlink(&self) -> bool;
}

impl SimKind for std_fs::Metadata {
    fn sim_is_file(&self) -> bool {
        self.is_file()
    }
    fn sim_is_dir(&self) -> bool {
        self.is_dir()
    }
    fn sim_is_symlink(&self) -> bool {
        self.is_symlink()
    }
}

impl SimKind for std_fs::FileType {
    fn sim_is_file(&self) -> bool {
        self.is_file()
    }
    fn sim_is_dir(&self) -> bool {
        self.is_dir()
    }
    fn sim_is_symlink(&self) -> bool {
        self.is_symlink()
    }
}

/// `metadata()` on an open file or a directory entry.
pub trait SimHandleMeta {
    fn sim_metadata(&self) -> io::Result<std_fs::Metadata>;
}

impl SimHandleMeta for std_fs::File {
    fn sim_metadata(&self) -> io::Result<std_fs::Metadata> {
        self.metadata()
    }
}

impl SimHandleMeta for std_fs::DirEntry {
    fn sim_metadata(&self) -> io::Result<std_fs::Metadata> {
        self.metadata()
    }
}

/// `metadata().await` on an open tokio file.
pub trait SimAsyncHandleMeta {
    fn sim_metadata(&self) -> Pin<Box<dyn Future<Output = io::Result<std_fs::Metadata>> + Send + '_>>;
}

impl SimAsyncHandleMeta for tokio_fs::File {
    fn sim_metadata(&self) -> Pin<Box<dyn Future<Output = io::Result<std_fs::Metadata>> + Send + '_>> {
        Box::pin(self.metadata())
    }
}

impl SimAsyncHandleMeta for tokio_fs::DirEntry {
    fn sim_metadata(&self) -> Pin<Box<dyn Future<Output = io::Result<std_fs::Metadata>> + Send + '_>> {
        Box::pin(self.metadata())
    }
}
