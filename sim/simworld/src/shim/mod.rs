//! Drop-in replacements for the parts of `std`, `tokio` and `fs2` through which copia
//! meets nondeterminism. Everything not overridden is the real item (glob re-export),
//! so types such as `io::Error`, `Path`, `tokio::sync::Semaphore` stay identical.

pub mod std_env;
pub mod std_fs;
pub mod std_io;
pub mod std_process;
pub mod std_time;
pub mod tokio_fs;
pub mod tokio_process;
pub mod tokio_rt;

pub mod std {
    pub use ::std::*;
    pub use super::std_env as env;
    pub use super::std_fs as fs;
    pub use super::std_io as io;
    pub use super::std_process as process;
    pub use super::std_thread as thread;
    pub use super::std_time as time;
}

pub mod tokio {
    pub use ::tokio::*;
    pub use super::tokio_fs as fs;
    pub use super::tokio_process as process;
    pub use super::tokio_rt::spawn;
}

/// `std::thread`: sleeping is simulated; a real thread would run outside the scheduler.
pub mod std_thread {
    pub use ::std::thread::*;
    use crate::kernel::{note_unsupported, syscall, try_ctx, OpKind};

    pub fn sleep(d: ::std::time::Duration) {
        if try_ctx().is_none() {
            return;
        }
        let _ = syscall(OpKind::Sleep, false, |_| true, super::std_time::sleep_exec(d));
    }

    pub fn spawn<F, T>(f: F) -> JoinHandle<T>
    where
        F: FnOnce() -> T + Send + 'static,
        T: Send + 'static,
    {
        note_unsupported("std::thread::spawn inside a simulated process (its interleaving would not be the scheduler's)");
        ::std::thread::spawn(f)
    }
}

pub mod fs2 {
    /// The subset of `fs2::FileExt` that exists for simulated files.
    pub trait FileExt {
        fn lock_exclusive(&self) -> ::std::io::Result<()>;
        fn lock_shared(&self) -> ::std::io::Result<()>;
        fn try_lock_exclusive(&self) -> ::std::io::Result<()>;
        fn try_lock_shared(&self) -> ::std::io::Result<()>;
        fn unlock(&self) -> ::std::io::Result<()>;
        fn allocated_size(&self) -> ::std::io::Result<u64>;
        fn allocate(&self, len: u64) -> ::std::io::Result<()>;
    }
}

use crate::kernel::{dead_err, peek, try_ctx, Dead};

pub(crate) fn flat<T>(r: Result<::std::io::Result<T>, Dead>) -> ::std::io::Result<T> {
    match r {
        Ok(x) => x,
        Err(Dead) => Err(dead_err()),
    }
}

pub(crate) fn pstr(p: &::std::path::Path) -> String {
    p.to_string_lossy().into_owned()
}

/// println!/eprintln! of a simulated process end here (fd 1 / fd 2 of that process).
pub fn out(idx: usize, args: ::std::fmt::Arguments<'_>, newline: bool) {
    let mut s = ::std::fmt::format(args);
    if newline {
        s.push('\n');
    }
    if try_ctx().is_some() {
        peek(|st, pid| {
            if !st.procs[pid as usize].killed {
                st.fd_write(pid, idx, s.as_bytes());
            }
        });
    } else {
        use ::std::io::Write;
        if idx == 1 {
            let _ = ::std::io::stdout().write_all(s.as_bytes());
        } else {
            let _ = ::std::io::stderr().write_all(s.as_bytes());
        }
    }
}
