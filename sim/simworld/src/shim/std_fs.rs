//! `std::fs` over the simulated file system. Each call is one scheduling point.

pub use std::fs::Permissions;

use super::{flat, pstr};
use crate::fs::{err, Kind, Meta, OpenFlags, EINVAL};
use crate::kernel::{direct, peek, syscall, OpKind};
use std::io::{self, Read, Seek, SeekFrom, Write};
use std::path::{Path, PathBuf};
use super::std_time::{SystemTime, UNIX_EPOCH};
use std::time::Duration;

#[derive(Clone, Debug)]
pub struct Metadata(pub(crate) Meta);

#[derive(Clone, Copy, Debug, PartialEq, Eq)]
pub struct FileType(pub(crate) u8);

impl FileType {
    pub fn is_dir(&self) -> bool {
        self.0 == 1
    }
    pub fn is_file(&self) -> bool {
        self.0 == 0
    }
    pub fn is_symlink(&self) -> bool {
        self.0 == 2
    }
}

fn ft(k: &Kind) -> FileType {
    FileType(match k {
        Kind::File => 0,
        Kind::Dir => 1,
        Kind::Symlink => 2,
    })
}

impl Metadata {
    pub fn len(&self) -> u64 {
        self.0.len
    }
    pub fn is_empty(&self) -> bool {
        self.0.len == 0
    }
    pub fn file_type(&self) -> FileType {
        ft(&self.0.kind)
    }
    pub fn is_dir(&self) -> bool {
        self.0.kind == Kind::Dir
    }
    pub fn is_file(&self) -> bool {
        self.0.kind == Kind::File
    }
    pub fn is_symlink(&self) -> bool {
        self.0.kind == Kind::Symlink
    }
    pub fn modified(&self) -> io::Result<SystemTime> {
        Ok(UNIX_EPOCH + Duration::from_nanos(self.0.mtime_ns))
    }
    pub fn accessed(&self) -> io::Result<SystemTime> {
        self.modified()
    }
    pub fn created(&self) -> io::Result<SystemTime> {
        self.modified()
    }
    pub fn ino(&self) -> u64 {
        self.0.ino
    }
    /// Permission bits are not modelled: every file is rw-r--r--, every directory rwxr-xr-x.
    pub fn permissions(&self) -> Permissions {
        use std::os::unix::fs::PermissionsExt;
        Permissions::from_mode(if self.0.kind == Kind::Dir { 0o755 } else { 0o644 })
    }
    // the `std::os::unix::fs::MetadataExt` accessors a maintainer might reach for
    pub fn size(&self) -> u64 {
        self.0.len
    }
    pub fn mtime(&self) -> i64 {
        (self.0.mtime_ns / 1_000_000_000) as i64
    }
    pub fn mtime_nsec(&self) -> i64 {
        (self.0.mtime_ns % 1_000_000_000) as i64
    }
    pub fn nlink(&self) -> u64 {
        u64::from(self.0.nlink)
    }
    pub fn uid(&self) -> u32 {
        1000
    }
    pub fn gid(&self) -> u32 {
        1000
    }
    pub fn dev(&self) -> u64 {
        1
    }
    pub fn mode(&self) -> u32 {
        if self.0.kind == Kind::Dir {
            0o040_755
        } else {
            0o100_644
        }
    }
}

pub(crate) fn systime_ns(t: SystemTime) -> u64 {
    t.duration_since(UNIX_EPOCH)
        .map(|d| u64::try_from(d.as_nanos()).unwrap_or(u64::MAX))
        .unwrap_or(0)
}

#[derive(Clone, Debug, Default)]
pub struct OpenOptions {
    pub(crate) fl: OpenFlags,
}

impl OpenOptions {
    pub fn new() -> Self {
        Self::default()
    }
    pub fn read(&mut self, v: bool) -> &mut Self {
        self.fl.read = v;
        self
    }
    pub fn write(&mut self, v: bool) -> &mut Self {
        self.fl.write = v;
        self
    }
    pub fn append(&mut self, v: bool) -> &mut Self {
        self.fl.append = v;
        self
    }
    pub fn truncate(&mut self, v: bool) -> &mut Self {
        self.fl.truncate = v;
        self
    }
    pub fn create(&mut self, v: bool) -> &mut Self {
        self.fl.create = v;
        self
    }
    pub fn create_new(&mut self, v: bool) -> &mut Self {
        self.fl.create_new = v;
        self
    }
    /// `OpenOptionsExt::mode` / `custom_flags`: permission bits and extra flags are not modelled
    pub fn mode(&mut self, _m: u32) -> &mut Self {
        self
    }
    pub fn custom_flags(&mut self, _f: i32) -> &mut Self {
        self
    }
    pub fn open<P: AsRef<Path>>(&self, path: P) -> io::Result<File> {
        open_with(path.as_ref(), self.fl)
    }
}

pub(crate) fn validate_flags(fl: OpenFlags) -> io::Result<()> {
    let w = fl.write || fl.append;
    if !fl.read && !w {
        return Err(err(EINVAL));
    }
    if (fl.truncate || fl.create || fl.create_new) && !w {
        return Err(err(EINVAL));
    }
    if fl.truncate && fl.append {
        return Err(err(EINVAL));
    }
    Ok(())
}

pub(crate) fn open_is_mutating(fl: OpenFlags) -> bool {
    fl.write || fl.append || fl.create || fl.create_new || fl.truncate
}

fn open_with(path: &Path, fl: OpenFlags) -> io::Result<File> {
    validate_flags(fl)?;
    let p = pstr(path);
    let ofd = flat(syscall(
        OpKind::Open,
        open_is_mutating(fl),
        |_| true,
        move |st, rec| {
            let pid = rec.pid;
            st.sys_open(pid, &p, fl, rec)
        },
    ))?;
    Ok(File {
        ofd,
        pos: 0,
        append: fl.append,
    })
}

#[derive(Debug)]
pub struct File {
    pub(crate) ofd: u64,
    pub(crate) pos: u64,
    pub(crate) append: bool,
}

impl File {
    pub fn open<P: AsRef<Path>>(path: P) -> io::Result<File> {
        open_with(
            path.as_ref(),
            OpenFlags {
                read: true,
                ..Default::default()
            },
        )
    }
    pub fn create<P: AsRef<Path>>(path: P) -> io::Result<File> {
        open_with(
            path.as_ref(),
            OpenFlags {
                write: true,
                create: true,
                truncate: true,
                ..Default::default()
            },
        )
    }
    pub fn create_new<P: AsRef<Path>>(path: P) -> io::Result<File> {
        open_with(
            path.as_ref(),
            OpenFlags {
                read: true,
                write: true,
                create_new: true,
                ..Default::default()
            },
        )
    }
    pub fn options() -> OpenOptions {
        OpenOptions::new()
    }
    pub fn sync_all(&self) -> io::Result<()> {
        let ofd = self.ofd;
        flat(syscall(OpKind::Fsync, true, |_| true, move |st, rec| {
            let pid = rec.pid;
            st.sys_fsync(pid, ofd, rec)
        }))
    }
    pub fn sync_data(&self) -> io::Result<()> {
        self.sync_all()
    }
    pub fn set_len(&self, len: u64) -> io::Result<()> {
        let ofd = self.ofd;
        flat(syscall(OpKind::SetLen, true, |_| true, move |st, rec| {
            let pid = rec.pid;
            st.sys_set_len(pid, ofd, len, rec)
        }))
    }
    pub fn metadata(&self) -> io::Result<Metadata> {
        let ofd = self.ofd;
        flat(syscall(OpKind::Stat, false, |_| true, move |st, rec| {
            let pid = rec.pid;
            st.sys_fstat(pid, ofd, rec)
        }))
        .map(Metadata)
    }
    pub fn set_modified(&self, t: SystemTime) -> io::Result<()> {
        let ofd = self.ofd;
        let ns = systime_ns(t);
        flat(syscall(OpKind::SetMtime, true, |_| true, move |st, rec| {
            let pid = rec.pid;
            st.sys_set_mtime(pid, ofd, ns, rec)
        }))
    }
    pub fn set_permissions(&self, _p: Permissions) -> io::Result<()> {
        Ok(())
    }
    /// A second handle on the same open file description is not modelled.
    pub fn try_clone(&self) -> io::Result<File> {
        crate::kernel::note_unsupported("File::try_clone (dup of a simulated descriptor)");
        Err(io::Error::new(io::ErrorKind::Unsupported, "try_clone is not simulated"))
    }
    // std's own advisory locking (File::lock & co.): the same flock as fs2's
    pub fn lock(&self) -> io::Result<()> {
        super::fs2::FileExt::lock_exclusive(self)
    }
    pub fn lock_shared(&self) -> io::Result<()> {
        super::fs2::FileExt::lock_shared(self)
    }
    pub fn try_lock(&self) -> io::Result<()> {
        super::fs2::FileExt::try_lock_exclusive(self)
    }
    pub fn try_lock_shared(&self) -> io::Result<()> {
        super::fs2::FileExt::try_lock_shared(self)
    }
    pub fn unlock(&self) -> io::Result<()> {
        super::fs2::FileExt::unlock(self)
    }
}

pub(crate) fn file_read(ofd: u64, pos: u64, len: usize) -> io::Result<Vec<u8>> {
    flat(syscall(OpKind::Read, false, |_| true, move |st, rec| {
        let pid = rec.pid;
        st.sys_read(pid, ofd, pos, len, rec)
    }))
}

pub(crate) fn file_write(ofd: u64, pos: Option<u64>, data: Vec<u8>) -> io::Result<(usize, u64)> {
    flat(syscall(OpKind::Write, true, |_| true, move |st, rec| {
        let pid = rec.pid;
        st.sys_write(pid, ofd, pos, &data, rec)
    }))
}

impl Read for File {
    fn read(&mut self, buf: &mut [u8]) -> io::Result<usize> {
        if buf.is_empty() {
            return Ok(0);
        }
        let d = file_read(self.ofd, self.pos, buf.len())?;
        buf[..d.len()].copy_from_slice(&d);
        self.pos += d.len() as u64;
        Ok(d.len())
    }
}

impl Write for File {
    fn write(&mut self, buf: &[u8]) -> io::Result<usize> {
        let pos = if self.append { None } else { Some(self.pos) };
        let (n, newpos) = file_write(self.ofd, pos, buf.to_vec())?;
        self.pos = newpos;
        Ok(n)
    }
    fn flush(&mut self) -> io::Result<()> {
        Ok(())
    }
}

impl Seek for File {
    fn seek(&mut self, s: SeekFrom) -> io::Result<u64> {
        let ofd = self.ofd;
        let len = peek(move |st, _| {
            st.ofds
                .get(&ofd)
                .map(|o| (o.host.clone(), o.ino))
                .map(|(h, i)| st.fs(&h).file_len(i))
                .unwrap_or(0)
        });
        let np: i128 = match s {
            SeekFrom::Start(p) => i128::from(p),
            SeekFrom::End(d) => i128::from(len) + i128::from(d),
            SeekFrom::Current(d) => i128::from(self.pos) + i128::from(d),
        };
        if np < 0 {
            return Err(err(EINVAL));
        }
        self.pos = np as u64;
        Ok(self.pos)
    }
}

impl Drop for File {
    fn drop(&mut self) {
        let ofd = self.ofd;
        direct(OpKind::Close, move |st, rec| {
            let pid = rec.pid;
            st.sys_close(pid, ofd, rec);
        });
    }
}

impl super::fs2::FileExt for File {
    fn lock_exclusive(&self) -> io::Result<()> {
        let ofd = self.ofd;
        flat(syscall(
            OpKind::Lock,
            false,
            move |st| st.lock_enabled(ofd),
            move |st, rec| {
                let pid = rec.pid;
                st.sys_lock(pid, ofd, rec)
            },
        ))
    }
    fn lock_shared(&self) -> io::Result<()> {
        let ofd = self.ofd;
        flat(syscall(
            OpKind::Lock,
            false,
            move |st| st.lock_enabled_mode(ofd, true),
            move |st, rec| {
                let pid = rec.pid;
                st.sys_lock_mode(pid, ofd, true, rec)
            },
        ))
    }
    fn try_lock_exclusive(&self) -> io::Result<()> {
        let ofd = self.ofd;
        flat(syscall(OpKind::Lock, false, |_| true, move |st, rec| {
            let pid = rec.pid;
            if st.lock_enabled(ofd) {
                st.sys_lock(pid, ofd, rec)
            } else {
                Err(io::Error::from(io::ErrorKind::WouldBlock))
            }
        }))
    }
    fn try_lock_shared(&self) -> io::Result<()> {
        let ofd = self.ofd;
        flat(syscall(OpKind::Lock, false, |_| true, move |st, rec| {
            let pid = rec.pid;
            if st.lock_enabled_mode(ofd, true) {
                st.sys_lock_mode(pid, ofd, true, rec)
            } else {
                Err(io::Error::from(io::ErrorKind::WouldBlock))
            }
        }))
    }
    fn unlock(&self) -> io::Result<()> {
        let ofd = self.ofd;
        flat(syscall(OpKind::Unlock, false, |_| true, move |st, rec| {
            let pid = rec.pid;
            st.sys_unlock(pid, ofd, rec)
        }))
    }
    fn allocated_size(&self) -> io::Result<u64> {
        self.metadata().map(|m| m.len())
    }
    fn allocate(&self, _len: u64) -> io::Result<()> {
        Ok(())
    }
}

// ---- free functions ---------------------------------------------------------------------

pub fn metadata<P: AsRef<Path>>(path: P) -> io::Result<Metadata> {
    let p = pstr(path.as_ref());
    flat(syscall(OpKind::Stat, false, |_| true, move |st, rec| {
        let pid = rec.pid;
        st.sys_stat(pid, &p, true, rec)
    }))
    .map(Metadata)
}

pub fn symlink_metadata<P: AsRef<Path>>(path: P) -> io::Result<Metadata> {
    let p = pstr(path.as_ref());
    flat(syscall(OpKind::Stat, false, |_| true, move |st, rec| {
        let pid = rec.pid;
        st.sys_stat(pid, &p, false, rec)
    }))
    .map(Metadata)
}

pub fn exists<P: AsRef<Path>>(path: P) -> io::Result<bool> {
    match metadata(path) {
        Ok(_) => Ok(true),
        Err(e) if e.kind() == io::ErrorKind::NotFound => Ok(false),
        Err(e) => Err(e),
    }
}

pub fn read_link<P: AsRef<Path>>(path: P) -> io::Result<PathBuf> {
    let p = pstr(path.as_ref());
    flat(syscall(OpKind::Readlink, false, |_| true, move |st, rec| {
        let pid = rec.pid;
        st.sys_readlink(pid, &p, rec)
    }))
    .map(PathBuf::from)
}

pub fn canonicalize<P: AsRef<Path>>(path: P) -> io::Result<PathBuf> {
    let p = pstr(path.as_ref());
    flat(syscall(OpKind::Canon, false, |_| true, move |st, rec| {
        let pid = rec.pid;
        st.sys_canon(pid, &p, rec)
    }))
    .map(PathBuf::from)
}

pub fn read<P: AsRef<Path>>(path: P) -> io::Result<Vec<u8>> {
    let mut f = File::open(path)?;
    let mut out = Vec::new();
    f.read_to_end(&mut out)?;
    Ok(out)
}

pub fn read_to_string<P: AsRef<Path>>(path: P) -> io::Result<String> {
    let b = read(path)?;
    String::from_utf8(b).map_err(|_| io::Error::new(io::ErrorKind::InvalidData, "stream did not contain valid UTF-8"))
}

pub fn write<P: AsRef<Path>, C: AsRef<[u8]>>(path: P, contents: C) -> io::Result<()> {
    let mut f = File::create(path)?;
    f.write_all(contents.as_ref())
}

pub fn create_dir<P: AsRef<Path>>(path: P) -> io::Result<()> {
    let p = pstr(path.as_ref());
    flat(syscall(OpKind::Mkdir, true, |_| true, move |st, rec| {
        let pid = rec.pid;
        st.sys_mkdir(pid, &p, rec)
    }))
}

/// Same algorithm as the real `DirBuilder::create_dir_all`.
pub fn create_dir_all<P: AsRef<Path>>(path: P) -> io::Result<()> {
    let path = path.as_ref();
    if path == Path::new("") {
        return Ok(());
    }
    match create_dir(path) {
        Ok(()) => return Ok(()),
        Err(ref e) if e.kind() == io::ErrorKind::NotFound => {}
        Err(_) if crate::SimPathRef::from(path).is_dir() => return Ok(()),
        Err(e) => return Err(e),
    }
    match path.parent() {
        Some(p) => create_dir_all(p)?,
        None => {
            return Err(io::Error::new(
                io::ErrorKind::Other,
                "failed to create whole tree",
            ))
        }
    }
    match create_dir(path) {
        Ok(()) => Ok(()),
        Err(_) if crate::SimPathRef::from(path).is_dir() => Ok(()),
        Err(e) => Err(e),
    }
}

pub fn remove_file<P: AsRef<Path>>(path: P) -> io::Result<()> {
    let p = pstr(path.as_ref());
    flat(syscall(OpKind::Unlink, true, |_| true, move |st, rec| {
        let pid = rec.pid;
        st.sys_unlink(pid, &p, rec)
    }))
}

pub fn remove_dir<P: AsRef<Path>>(path: P) -> io::Result<()> {
    let p = pstr(path.as_ref());
    flat(syscall(OpKind::Rmdir, true, |_| true, move |st, rec| {
        let pid = rec.pid;
        st.sys_rmdir(pid, &p, rec)
    }))
}

pub fn remove_dir_all<P: AsRef<Path>>(path: P) -> io::Result<()> {
    let path = path.as_ref();
    for e in read_dir(path)? {
        let e = e?;
        if e.file_type()?.is_dir() {
            remove_dir_all(e.path())?;
        } else {
            remove_file(e.path())?;
        }
    }
    remove_dir(path)
}

pub fn rename<P: AsRef<Path>, Q: AsRef<Path>>(from: P, to: Q) -> io::Result<()> {
    let a = pstr(from.as_ref());
    let b = pstr(to.as_ref());
    flat(syscall(OpKind::Rename, true, |_| true, move |st, rec| {
        let pid = rec.pid;
        st.sys_rename(pid, &a, &b, rec)
    }))
}

pub(crate) fn copy_chunk() -> usize {
    peek(|st, _| st.cfg.copy_chunk.max(1))
}

/// The call sequence the real `fs::copy` makes: open src, open dst (create+truncate),
/// copy chunk by chunk, close — so a partially written destination is an observable state.
pub fn copy<P: AsRef<Path>, Q: AsRef<Path>>(from: P, to: Q) -> io::Result<u64> {
    let mut src = File::open(from)?;
    if !src.metadata()?.is_file() {
        return Err(io::Error::new(
            io::ErrorKind::InvalidInput,
            "the source path is neither a regular file nor a symlink to a regular file",
        ));
    }
    let mut dst = File::create(to)?;
    let chunk = copy_chunk();
    let mut total = 0u64;
    loop {
        let d = file_read(src.ofd, src.pos, chunk)?;
        if d.is_empty() {
            break;
        }
        src.pos += d.len() as u64;
        total += d.len() as u64;
        dst.write_all(&d)?;
    }
    Ok(total)
}

pub fn hard_link<P: AsRef<Path>, Q: AsRef<Path>>(a: P, b: Q) -> io::Result<()> {
    let (a, b) = (pstr(a.as_ref()), pstr(b.as_ref()));
    flat(syscall(OpKind::Link, true, |_| true, move |st, rec| {
        let pid = rec.pid;
        st.sys_link(pid, &a, &b, rec)
    }))
}

pub fn set_permissions<P: AsRef<Path>>(_p: P, _perm: Permissions) -> io::Result<()> {
    Ok(())
}

pub struct DirEntry {
    pub(crate) dir: PathBuf,
    pub(crate) name: String,
    pub(crate) kind: Kind,
}

impl DirEntry {
    pub fn path(&self) -> PathBuf {
        self.dir.join(&self.name)
    }
    pub fn file_name(&self) -> std::ffi::OsString {
        std::ffi::OsString::from(self.name.clone())
    }
    pub fn file_type(&self) -> io::Result<FileType> {
        Ok(ft(&self.kind))
    }
    pub fn metadata(&self) -> io::Result<Metadata> {
        symlink_metadata(self.path())
    }
}

pub struct ReadDir {
    items: std::vec::IntoIter<DirEntry>,
}

impl Iterator for ReadDir {
    type Item = io::Result<DirEntry>;
    fn next(&mut self) -> Option<Self::Item> {
        self.items.next().map(Ok)
    }
}

pub fn read_dir<P: AsRef<Path>>(path: P) -> io::Result<ReadDir> {
    let dir = path.as_ref().to_path_buf();
    let p = pstr(&dir);
    let list = flat(syscall(OpKind::Readdir, false, |_| true, move |st, rec| {
        let pid = rec.pid;
        st.sys_readdir(pid, &p, rec)
    }))?;
    let items: Vec<DirEntry> = list
        .into_iter()
        .map(|(name, kind)| DirEntry {
            dir: dir.clone(),
            name,
            kind,
        })
        .collect();
    Ok(ReadDir {
        items: items.into_iter(),
    })
}
