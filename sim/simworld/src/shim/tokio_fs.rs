//! `tokio::fs` over the simulated file system. Each operation is an async op whose
//! completion order relative to the process's other registered ops is the scheduler's
//! seeded choice.

use super::std_fs::{open_is_mutating, systime_ns, validate_flags, Metadata};
use super::{flat, pstr};
use crate::fs::{err, OpenFlags, EINVAL};
use crate::kernel::{direct, peek, AsyncOp, Dead, OpKind, OpRec, State};
use std::future::Future;
use std::io::{self, SeekFrom};
use std::path::{Path, PathBuf};
use std::pin::Pin;
use std::task::{Context, Poll};
use tokio::io::{AsyncRead, AsyncSeek, AsyncWrite, ReadBuf};

pub(crate) async fn aop<T: Send + 'static>(
    kind: OpKind,
    mutating: bool,
    exec: impl FnOnce(&mut State, &mut OpRec) -> io::Result<T> + Send + Sync + 'static,
) -> io::Result<T> {
    flat(AsyncOp::new(kind, mutating, |_| true, exec).await)
}

type ReadOp = AsyncOp<io::Result<Vec<u8>>>;
type WriteOp = AsyncOp<io::Result<(usize, u64)>>;

pub struct File {
    ofd: u64,
    pos: u64,
    append: bool,
    rd: Option<ReadOp>,
    wr: Option<WriteOp>,
}

impl std::fmt::Debug for File {
    fn fmt(&self, f: &mut std::fmt::Formatter<'_>) -> std::fmt::Result {
        write!(f, "tokio::fs::File(ofd={})", self.ofd)
    }
}

async fn open_with(path: &Path, fl: OpenFlags) -> io::Result<File> {
    validate_flags(fl)?;
    let p = pstr(path);
    let ofd = aop(OpKind::Open, open_is_mutating(fl), move |st, rec| {
        let pid = rec.pid;
        st.sys_open(pid, &p, fl, rec)
    })
    .await?;
    Ok(File {
        ofd,
        pos: 0,
        append: fl.append,
        rd: None,
        wr: None,
    })
}

impl File {
    pub async fn open(path: impl AsRef<Path>) -> io::Result<File> {
        open_with(
            path.as_ref(),
            OpenFlags {
                read: true,
                ..Default::default()
            },
        )
        .await
    }
    pub async fn create(path: impl AsRef<Path>) -> io::Result<File> {
        open_with(
            path.as_ref(),
            OpenFlags {
                write: true,
                create: true,
                truncate: true,
                ..Default::default()
            },
        )
        .await
    }
    pub fn options() -> OpenOptions {
        OpenOptions::new()
    }
    pub async fn create_new(path: impl AsRef<Path>) -> io::Result<File> {
        open_with(
            path.as_ref(),
            OpenFlags {
                write: true,
                create_new: true,
                ..Default::default()
            },
        )
        .await
    }
    /// Take over a descriptor opened through the blocking API (same open file description).
    pub fn from_std(f: super::std_fs::File) -> File {
        let f = std::mem::ManuallyDrop::new(f);
        File {
            ofd: f.ofd,
            pos: f.pos,
            append: f.append,
            rd: None,
            wr: None,
        }
    }
    /// Hand the descriptor back to the blocking API, after the write in flight has finished.
    pub async fn into_std(mut self) -> super::std_fs::File {
        let _ = std::future::poll_fn(|cx| self.poll_inflight(cx)).await;
        let me = std::mem::ManuallyDrop::new(self);
        super::std_fs::File {
            ofd: me.ofd,
            pos: me.pos,
            append: me.append,
        }
    }
    pub async fn try_clone(&self) -> io::Result<File> {
        crate::kernel::note_unsupported("tokio File::try_clone (dup of a simulated descriptor)");
        Err(io::Error::new(io::ErrorKind::Unsupported, "try_clone is not simulated"))
    }
    pub async fn set_permissions(&self, _p: super::std_fs::Permissions) -> io::Result<()> {
        Ok(())
    }
    pub fn set_max_buf_size(&mut self, _n: usize) {}
    pub async fn sync_all(&self) -> io::Result<()> {
        let ofd = self.ofd;
        aop(OpKind::Fsync, true, move |st, rec| {
            let pid = rec.pid;
            st.sys_fsync(pid, ofd, rec)
        })
        .await
    }
    pub async fn sync_data(&self) -> io::Result<()> {
        self.sync_all().await
    }
    pub async fn set_len(&self, len: u64) -> io::Result<()> {
        let ofd = self.ofd;
        aop(OpKind::SetLen, true, move |st, rec| {
            let pid = rec.pid;
            st.sys_set_len(pid, ofd, len, rec)
        })
        .await
    }
    pub async fn metadata(&self) -> io::Result<Metadata> {
        let ofd = self.ofd;
        aop(OpKind::Stat, false, move |st, rec| {
            let pid = rec.pid;
            st.sys_fstat(pid, ofd, rec)
        })
        .await
        .map(Metadata)
    }
    pub async fn set_modified_ns(&self, ns: u64) -> io::Result<()> {
        let ofd = self.ofd;
        aop(OpKind::SetMtime, true, move |st, rec| {
            let pid = rec.pid;
            st.sys_set_mtime(pid, ofd, ns, rec)
        })
        .await
    }
}

fn dead_to_io<T>(r: Result<io::Result<T>, Dead>) -> io::Result<T> {
    flat(r)
}

impl AsyncRead for File {
    fn poll_read(
        self: Pin<&mut Self>,
        cx: &mut Context<'_>,
        buf: &mut ReadBuf<'_>,
    ) -> Poll<io::Result<()>> {
        let me = self.get_mut();
        match me.poll_inflight(cx) {
            Poll::Pending => return Poll::Pending,
            Poll::Ready(Err(e)) => return Poll::Ready(Err(e)),
            Poll::Ready(Ok(())) => {}
        }
        if me.rd.is_none() {
            let want = buf.remaining();
            if want == 0 {
                return Poll::Ready(Ok(()));
            }
            let (ofd, pos) = (me.ofd, me.pos);
            me.rd = Some(AsyncOp::new(OpKind::Read, false, |_| true, move |st, rec| {
                let pid = rec.pid;
                st.sys_read(pid, ofd, pos, want, rec)
            }));
        }
        match me.rd.as_mut().unwrap().poll_op(cx) {
            Poll::Pending => Poll::Pending,
            Poll::Ready(r) => {
                me.rd = None;
                let d = dead_to_io(r)?;
                let n = d.len().min(buf.remaining());
                buf.put_slice(&d[..n]);
                me.pos += n as u64;
                Poll::Ready(Ok(()))
            }
        }
    }
}

impl File {
    /// Wait for the write that is still in flight (tokio's File hands every write to the
    /// blocking pool and returns at once; the next operation, or flush, waits for it and
    /// reports its error).
    fn poll_inflight(&mut self, cx: &mut Context<'_>) -> Poll<io::Result<()>> {
        if let Some(op) = self.wr.as_mut() {
            match op.poll_op(cx) {
                Poll::Pending => return Poll::Pending,
                Poll::Ready(r) => {
                    self.wr = None;
                    dead_to_io(r)?;
                }
            }
        }
        Poll::Ready(Ok(()))
    }
}

impl AsyncWrite for File {
    fn poll_write(
        self: Pin<&mut Self>,
        cx: &mut Context<'_>,
        data: &[u8],
    ) -> Poll<io::Result<usize>> {
        let me = self.get_mut();
        match me.poll_inflight(cx) {
            Poll::Pending => return Poll::Pending,
            Poll::Ready(Err(e)) => return Poll::Ready(Err(e)),
            Poll::Ready(Ok(())) => {}
        }
        if data.is_empty() {
            return Poll::Ready(Ok(0));
        }
        // like tokio::fs::File: copy the data, start the write in the background and return
        // immediately; nothing but a later write / flush / shutdown waits for it
        let ofd = me.ofd;
        let pos = if me.append { None } else { Some(me.pos) };
        let v = data.to_vec();
        let mut op: WriteOp = AsyncOp::new(OpKind::Write, true, |_| true, move |st, rec| {
            // tokio's background job is `write_all`: a short write is completed there
            let pid = rec.pid;
            let mut off = 0usize;
            let mut at = pos;
            loop {
                let (n, np) = st.sys_write(pid, ofd, at, &v[off..], rec)?;
                off += n;
                if off >= v.len() {
                    rec.bytes = v.len() as u64;
                    return Ok((v.len(), np));
                }
                if n == 0 {
                    return Err(io::Error::new(io::ErrorKind::WriteZero, "failed to write whole buffer"));
                }
                at = at.map(|_| np);
            }
        });
        match op.poll_op(cx) {
            Poll::Pending => {
                me.wr = Some(op);
                me.pos += data.len() as u64;
                Poll::Ready(Ok(data.len()))
            }
            Poll::Ready(r) => {
                // only when the process is dead
                let (n, np) = dead_to_io(r)?;
                me.pos = np;
                Poll::Ready(Ok(n))
            }
        }
    }
    fn poll_flush(self: Pin<&mut Self>, cx: &mut Context<'_>) -> Poll<io::Result<()>> {
        self.get_mut().poll_inflight(cx)
    }
    fn poll_shutdown(self: Pin<&mut Self>, cx: &mut Context<'_>) -> Poll<io::Result<()>> {
        self.get_mut().poll_inflight(cx)
    }
}

impl AsyncSeek for File {
    fn start_seek(self: Pin<&mut Self>, s: SeekFrom) -> io::Result<()> {
        let me = self.get_mut();
        let ofd = me.ofd;
        let len = peek(move |st, _| {
            st.ofds
                .get(&ofd)
                .map(|o| (o.host.clone(), o.ino))
                .map(|(h, i)| st.fs(&h).file_len(i))
                .unwrap_or(0)
        });
        let np: i128 = match s {
            SeekFrom::Start(p) => i128::from(p),
            SeekFrom::End(d) => i128::from(len) + i128::from(d),
            SeekFrom::Current(d) => i128::from(me.pos) + i128::from(d),
        };
        if np < 0 {
            return Err(err(EINVAL));
        }
        me.pos = np as u64;
        Ok(())
    }
    fn poll_complete(self: Pin<&mut Self>, _cx: &mut Context<'_>) -> Poll<io::Result<u64>> {
        Poll::Ready(Ok(self.pos))
    }
}

impl Drop for File {
    fn drop(&mut self) {
        self.rd = None;
        let ofd = self.ofd;
        // Dropping a tokio File does NOT wait for the write in flight: the write still
        // happens (the blocking task owns the descriptor), unless the process dies first.
        if let Some(mut op) = self.wr.take() {
            if let Some((sh, pid, id)) = op.detach() {
                crate::kernel::defer_close_after(&sh, pid, id, ofd);
                return;
            }
        }
        direct(OpKind::Close, move |st, rec| {
            let pid = rec.pid;
            st.sys_close(pid, ofd, rec);
        });
    }
}

#[derive(Clone, Debug, Default)]
pub struct OpenOptions {
    fl: OpenFlags,
}

impl OpenOptions {
    pub fn new() -> Self {
        Self::default()
    }
    pub fn read(&mut self, v: bool) -> &mut Self {
        self.fl.read = v;
        self
    }
    pub fn write(&mut self, v: bool) -> &mut Self {
        self.fl.write = v;
        self
    }
    pub fn append(&mut self, v: bool) -> &mut Self {
        self.fl.append = v;
        self
    }
    pub fn truncate(&mut self, v: bool) -> &mut Self {
        self.fl.truncate = v;
        self
    }
    pub fn create(&mut self, v: bool) -> &mut Self {
        self.fl.create = v;
        self
    }
    pub fn create_new(&mut self, v: bool) -> &mut Self {
        self.fl.create_new = v;
        self
    }
    pub fn mode(&mut self, _m: u32) -> &mut Self {
        self
    }
    pub fn custom_flags(&mut self, _f: i32) -> &mut Self {
        self
    }
    pub async fn open(&self, path: impl AsRef<Path>) -> io::Result<File> {
        open_with(path.as_ref(), self.fl).await
    }
}

// ---- free functions ---------------------------------------------------------------------

pub async fn metadata(path: impl AsRef<Path>) -> io::Result<Metadata> {
    let p = pstr(path.as_ref());
    aop(OpKind::Stat, false, move |st, rec| {
        let pid = rec.pid;
        st.sys_stat(pid, &p, true, rec)
    })
    .await
    .map(Metadata)
}

pub async fn symlink_metadata(path: impl AsRef<Path>) -> io::Result<Metadata> {
    let p = pstr(path.as_ref());
    aop(OpKind::Stat, false, move |st, rec| {
        let pid = rec.pid;
        st.sys_stat(pid, &p, false, rec)
    })
    .await
    .map(Metadata)
}

pub async fn try_exists(path: impl AsRef<Path>) -> io::Result<bool> {
    match metadata(path).await {
        Ok(_) => Ok(true),
        Err(e) if e.kind() == io::ErrorKind::NotFound => Ok(false),
        Err(e) => Err(e),
    }
}

pub async fn canonicalize(path: impl AsRef<Path>) -> io::Result<PathBuf> {
    let p = pstr(path.as_ref());
    aop(OpKind::Canon, false, move |st, rec| {
        let pid = rec.pid;
        st.sys_canon(pid, &p, rec)
    })
    .await
    .map(PathBuf::from)
}

async fn read_chunk(ofd: u64, pos: u64, len: usize) -> io::Result<Vec<u8>> {
    aop(OpKind::Read, false, move |st, rec| {
        let pid = rec.pid;
        st.sys_read(pid, ofd, pos, len, rec)
    })
    .await
}

async fn write_chunk(ofd: u64, pos: u64, data: Vec<u8>) -> io::Result<(usize, u64)> {
    aop(OpKind::Write, true, move |st, rec| {
        let pid = rec.pid;
        st.sys_write(pid, ofd, Some(pos), &data, rec)
    })
    .await
}

pub async fn read(path: impl AsRef<Path>) -> io::Result<Vec<u8>> {
    let f = File::open(path).await?;
    let mut out = Vec::new();
    let mut pos = 0u64;
    loop {
        let d = read_chunk(f.ofd, pos, 1 << 20).await?;
        if d.is_empty() {
            break;
        }
        pos += d.len() as u64;
        out.extend_from_slice(&d);
    }
    Ok(out)
}

pub async fn read_to_string(path: impl AsRef<Path>) -> io::Result<String> {
    let b = read(path).await?;
    String::from_utf8(b)
        .map_err(|_| io::Error::new(io::ErrorKind::InvalidData, "stream did not contain valid UTF-8"))
}

pub async fn write(path: impl AsRef<Path>, contents: impl AsRef<[u8]>) -> io::Result<()> {
    let f = File::create(path).await?;
    let data = contents.as_ref().to_vec();
    if !data.is_empty() {
        write_chunk(f.ofd, 0, data).await?;
    }
    Ok(())
}

pub async fn rename(from: impl AsRef<Path>, to: impl AsRef<Path>) -> io::Result<()> {
    let a = pstr(from.as_ref());
    let b = pstr(to.as_ref());
    aop(OpKind::Rename, true, move |st, rec| {
        let pid = rec.pid;
        st.sys_rename(pid, &a, &b, rec)
    })
    .await
}

pub async fn remove_file(path: impl AsRef<Path>) -> io::Result<()> {
    let p = pstr(path.as_ref());
    aop(OpKind::Unlink, true, move |st, rec| {
        let pid = rec.pid;
        st.sys_unlink(pid, &p, rec)
    })
    .await
}

pub async fn remove_dir(path: impl AsRef<Path>) -> io::Result<()> {
    let p = pstr(path.as_ref());
    aop(OpKind::Rmdir, true, move |st, rec| {
        let pid = rec.pid;
        st.sys_rmdir(pid, &p, rec)
    })
    .await
}

pub async fn create_dir(path: impl AsRef<Path>) -> io::Result<()> {
    let p = pstr(path.as_ref());
    aop(OpKind::Mkdir, true, move |st, rec| {
        let pid = rec.pid;
        st.sys_mkdir(pid, &p, rec)
    })
    .await
}

pub async fn create_dir_all(path: impl AsRef<Path>) -> io::Result<()> {
    // same algorithm as std, top-down variant: create each missing prefix
    let path = path.as_ref();
    let mut stack: Vec<PathBuf> = Vec::new();
    let mut cur = Some(path);
    while let Some(p) = cur {
        if p.as_os_str().is_empty() {
            break;
        }
        match metadata(p).await {
            Ok(m) if m.is_dir() => break,
            Ok(_) => return Err(err(crate::fs::EEXIST)),
            Err(_) => stack.push(p.to_path_buf()),
        }
        cur = p.parent();
    }
    while let Some(p) = stack.pop() {
        match create_dir(&p).await {
            Ok(()) => {}
            Err(e) if e.kind() == io::ErrorKind::AlreadyExists => {}
            Err(e) => return Err(e),
        }
    }
    Ok(())
}

/// `tokio::fs::copy`: the same open / chunked copy / close sequence as `std::fs::copy`,
/// each step an async op so other tasks of the process interleave with it.
pub async fn copy(from: impl AsRef<Path>, to: impl AsRef<Path>) -> io::Result<u64> {
    let src = File::open(from).await?;
    if !src.metadata().await?.is_file() {
        return Err(io::Error::new(
            io::ErrorKind::InvalidInput,
            "the source path is neither a regular file nor a symlink to a regular file",
        ));
    }
    let dst = File::create(to).await?;
    let chunk = super::std_fs::copy_chunk();
    let mut pos = 0u64;
    loop {
        let d = read_chunk(src.ofd, pos, chunk).await?;
        if d.is_empty() {
            break;
        }
        let n = d.len() as u64;
        write_chunk(dst.ofd, pos, d).await?;
        pos += n;
    }
    Ok(pos)
}

pub async fn set_permissions(_p: impl AsRef<Path>, _perm: std::fs::Permissions) -> io::Result<()> {
    Ok(())
}

#[allow(dead_code)]
fn _unused(_: fn(std::time::SystemTime) -> u64) {
    let _ = systime_ns;
}

#[allow(dead_code)]
fn _assert_send<T: Send>(_: &T) {}

#[allow(dead_code)]
fn _file_is_send(f: &File) {
    _assert_send(f);
}

#[allow(dead_code)]
fn _fut_is_send() {
    fn is_send<T: Send>(_: T) {}
    is_send(read("x"));
    is_send(copy("a", "b"));
    let _: Option<Pin<Box<dyn Future<Output = ()> + Send>>> = None;
}


pub async fn remove_dir_all(path: impl AsRef<Path>) -> io::Result<()> {
    // depth-first, one simulated call per entry, like the blocking version
    let root = path.as_ref().to_path_buf();
    let mut stack: Vec<(PathBuf, bool)> = vec![(root, false)];
    while let Some((p, expanded)) = stack.pop() {
        if expanded {
            remove_dir(&p).await?;
            continue;
        }
        stack.push((p.clone(), true));
        let mut rd = read_dir(&p).await?;
        while let Some(e) = rd.next_entry().await? {
            if e.file_type().await?.is_dir() {
                stack.push((e.path(), false));
            } else {
                remove_file(e.path()).await?;
            }
        }
    }
    Ok(())
}

pub struct DirEntry(super::std_fs::DirEntry);

impl DirEntry {
    pub fn path(&self) -> PathBuf {
        self.0.path()
    }
    pub fn file_name(&self) -> std::ffi::OsString {
        self.0.file_name()
    }
    pub async fn file_type(&self) -> io::Result<super::std_fs::FileType> {
        self.0.file_type()
    }
    pub async fn metadata(&self) -> io::Result<Metadata> {
        symlink_metadata(self.0.path()).await
    }
}

pub struct ReadDir {
    items: std::vec::IntoIter<DirEntry>,
}

impl ReadDir {
    pub async fn next_entry(&mut self) -> io::Result<Option<DirEntry>> {
        Ok(self.items.next())
    }
}

pub async fn read_dir(path: impl AsRef<Path>) -> io::Result<ReadDir> {
    let dir = path.as_ref().to_path_buf();
    let p = pstr(&dir);
    let list = aop(OpKind::Readdir, false, move |st, rec| {
        let pid = rec.pid;
        st.sys_readdir(pid, &p, rec)
    })
    .await?;
    let items: Vec<DirEntry> = list
        .into_iter()
        .map(|(name, kind)| DirEntry(super::std_fs::DirEntry { dir: dir.clone(), name, kind }))
        .collect();
    Ok(ReadDir { items: items.into_iter() })
}

pub async fn read_link(path: impl AsRef<Path>) -> io::Result<PathBuf> {
    let p = pstr(path.as_ref());
    aop(OpKind::Readlink, false, move |st, rec| {
        let pid = rec.pid;
        st.sys_readlink(pid, &p, rec)
    })
    .await
    .map(PathBuf::from)
}

pub async fn hard_link(a: impl AsRef<Path>, b: impl AsRef<Path>) -> io::Result<()> {
    let (a, b) = (pstr(a.as_ref()), pstr(b.as_ref()));
    aop(OpKind::Link, true, move |st, rec| {
        let pid = rec.pid;
        st.sys_link(pid, &a, &b, rec)
    })
    .await
}
