//! `std::time` with `Instant` reading the simulated clock.

pub use std::time::*;

use crate::kernel::{peek, try_ctx};

#[derive(Clone, Copy, Debug, PartialEq, Eq, PartialOrd, Ord)]
pub struct Instant(u64);

impl Instant {
    pub fn now() -> Self {
        if try_ctx().is_none() {
            return Instant(0);
        }
        Instant(peek(|st, _| st.world.clock_ns))
    }
    pub fn elapsed(&self) -> Duration {
        Duration::from_nanos(Self::now().0.saturating_sub(self.0))
    }
    pub fn duration_since(&self, earlier: Instant) -> Duration {
        Duration::from_nanos(self.0.saturating_sub(earlier.0))
    }
}
