//! `std::time` with `Instant` and `SystemTime::now()` reading the simulated clock.

pub use std::time::*;

use crate::kernel::{peek, try_ctx};

#[derive(Clone, Copy, Debug, PartialEq, Eq, PartialOrd, Ord)]
pub struct Instant(u64);

impl Instant {
    pub fn now() -> Self {
        if try_ctx().is_none() {
            return Instant(0);
        }
        Instant(peek(|st, _| st.world.clock_ns))
    }
    pub fn elapsed(&self) -> Duration {
        Duration::from_nanos(Self::now().0.saturating_sub(self.0))
    }
    pub fn duration_since(&self, earlier: Instant) -> Duration {
        Duration::from_nanos(self.0.saturating_sub(earlier.0))
    }
}


/// `std::time::SystemTime` whose `now()` is the simulated wall clock (the real one would be a
/// source of nondeterminism, and years ahead of every simulated mtime).
#[derive(Clone, Copy, Debug, PartialEq, Eq, PartialOrd, Ord, Hash)]
pub struct SystemTime(std::time::SystemTime);

pub const UNIX_EPOCH: SystemTime = SystemTime(std::time::UNIX_EPOCH);

impl SystemTime {
    pub const UNIX_EPOCH: SystemTime = UNIX_EPOCH;
    pub fn now() -> Self {
        let ns = if try_ctx().is_none() { 0 } else { peek(|st, _| st.world.clock_ns) };
        SystemTime(std::time::UNIX_EPOCH + Duration::from_nanos(ns))
    }
    pub fn duration_since(&self, earlier: SystemTime) -> Result<Duration, SystemTimeError> {
        self.0.duration_since(earlier.0)
    }
    pub fn elapsed(&self) -> Result<Duration, SystemTimeError> {
        Self::now().duration_since(*self)
    }
    pub fn checked_add(&self, d: Duration) -> Option<SystemTime> {
        self.0.checked_add(d).map(SystemTime)
    }
    pub fn checked_sub(&self, d: Duration) -> Option<SystemTime> {
        self.0.checked_sub(d).map(SystemTime)
    }
}

impl std::ops::Add<Duration> for SystemTime {
    type Output = SystemTime;
    fn add(self, d: Duration) -> SystemTime {
        SystemTime(self.0 + d)
    }
}
impl std::ops::Sub<Duration> for SystemTime {
    type Output = SystemTime;
    fn sub(self, d: Duration) -> SystemTime {
        SystemTime(self.0 - d)
    }
}
impl std::ops::AddAssign<Duration> for SystemTime {
    fn add_assign(&mut self, d: Duration) {
        self.0 += d;
    }
}
impl std::ops::SubAssign<Duration> for SystemTime {
    fn sub_assign(&mut self, d: Duration) {
        self.0 -= d;
    }
}
impl From<std::time::SystemTime> for SystemTime {
    fn from(t: std::time::SystemTime) -> Self {
        SystemTime(t)
    }
}
impl From<SystemTime> for std::time::SystemTime {
    fn from(t: SystemTime) -> Self {
        t.0
    }
}

/// Body of every simulated sleep: one scheduling point that moves the simulated clock on.
pub(crate) fn sleep_exec(d: Duration) -> impl FnOnce(&mut crate::kernel::State, &mut crate::kernel::OpRec) + Send + Sync + 'static {
    move |st, rec| {
        let ns = u64::try_from(d.as_nanos()).unwrap_or(u64::MAX / 4);
        st.world.clock_ns = st.world.clock_ns.saturating_add(ns);
        rec.bytes = ns / 1_000_000;
        rec.ok = true;
    }
}
