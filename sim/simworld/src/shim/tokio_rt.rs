//! Running real tokio code deterministically: a current-thread runtime whose root future
//! is wrapped in a driver that detects quiescence (no task polled, no simulated op
//! registered or consumed since its previous poll) and only then lets the simulator's
//! scheduler pick which registered op completes next.

use crate::kernel::{bump_activity, deliver_wakes, park_async, ACTIVITY};
use std::future::Future;
use std::pin::Pin;
use std::task::{Context, Poll};

struct Counted<F> {
    inner: Pin<Box<F>>,
    /// every task first waits for a "task start" op: under the shipped multi-thread runtime
    /// spawned tasks begin in any order, so the order is the scheduler's seeded choice here
    start: Option<crate::kernel::AsyncOp<()>>,
}

impl<F: Future> Future for Counted<F> {
    type Output = F::Output;
    fn poll(self: Pin<&mut Self>, cx: &mut Context<'_>) -> Poll<F::Output> {
        bump_activity();
        let me = unsafe_free_get_mut(self);
        if let Some(op) = me.start.as_mut() {
            match op.poll_op(cx) {
                Poll::Pending => return Poll::Pending,
                Poll::Ready(_) => me.start = None,
            }
        }
        me.inner.as_mut().poll(cx)
    }
}

// Counted is Unpin (a pinned box and an Unpin op), so get_mut is safe without `unsafe`
impl<F> Unpin for Counted<F> {}
fn unsafe_free_get_mut<F>(p: Pin<&mut Counted<F>>) -> &mut Counted<F> {
    Pin::get_mut(p)
}

/// `tokio::spawn` with poll counting (the task itself is a real tokio task).
pub fn spawn<F>(f: F) -> ::tokio::task::JoinHandle<F::Output>
where
    F: Future + Send + 'static,
    F::Output: Send + 'static,
{
    let start = crate::kernel::AsyncOp::new(crate::kernel::OpKind::TaskStart, false, |_| true, |_, rec| {
        rec.ok = true;
    });
    ::tokio::spawn(Counted { inner: Box::pin(f), start: Some(start) })
}

struct Driver<F> {
    root: Pin<Box<F>>,
    last: u64,
    idle_polls: u32,
}

impl<F: Future> Future for Driver<F> {
    type Output = F::Output;
    fn poll(mut self: Pin<&mut Self>, cx: &mut Context<'_>) -> Poll<F::Output> {
        deliver_wakes();
        if let Poll::Ready(v) = self.root.as_mut().poll(cx) {
            return Poll::Ready(v);
        }
        let act = ACTIVITY.with(|a| a.get());
        if act != self.last {
            self.last = act;
            self.idle_polls = 0;
            cx.waker().wake_by_ref();
            return Poll::Pending;
        }
        self.idle_polls += 1;
        if self.idle_polls < 2 {
            cx.waker().wake_by_ref();
            return Poll::Pending;
        }
        self.idle_polls = 0;
        // quiescent: every task is blocked on a registered op (or on another task)
        if park_async().is_err() {
            // dead and already unwinding; nothing more to do
        }
        self.last = ACTIVITY.with(|a| a.get());
        bump_activity();
        cx.waker().wake_by_ref();
        Poll::Pending
    }
}

/// Run an async program as a simulated process body.
pub fn block_on<F: Future>(f: F) -> F::Output {
    let rt = ::tokio::runtime::Builder::new_current_thread()
        .build()
        .expect("tokio current-thread runtime");
    let out = rt.block_on(Driver {
        root: Box::pin(f),
        last: ACTIVITY.with(|a| a.get()).wrapping_sub(1),
        idle_polls: 0,
    });
    drop(rt);
    out
}
