//! `std::process` over the simulator's process table.

pub use std::process::{ExitCode, Termination};

use super::flat;
use super::std_io::{pipe_read, pipe_write};
use crate::kernel::{ctx, direct, peek, syscall, ExitKind, OpKind, Pid};
use crate::sys::{ChildInfo, StdioCfg};
use std::collections::BTreeMap;
use std::ffi::OsStr;
use std::io::{self, Read, Write};

pub fn id() -> u32 {
    peek(|_, pid| pid + 1000)
}

#[derive(Debug)]
pub struct Stdio(pub(crate) StdioCfg);

impl Stdio {
    pub fn piped() -> Self {
        Stdio(StdioCfg::Piped)
    }
    pub fn null() -> Self {
        Stdio(StdioCfg::Null)
    }
    pub fn inherit() -> Self {
        Stdio(StdioCfg::Inherit)
    }
}

#[derive(Clone, Debug, PartialEq, Eq)]
pub struct ExitStatus(pub(crate) ExitKind);

impl ExitStatus {
    pub fn success(&self) -> bool {
        self.0 == ExitKind::Code(0)
    }
    pub fn code(&self) -> Option<i32> {
        match self.0 {
            ExitKind::Code(c) => Some(c),
            _ => None,
        }
    }
    /// `ExitStatusExt::signal`
    pub fn signal(&self) -> Option<i32> {
        match self.0 {
            ExitKind::Code(_) => None,
            ExitKind::Aborted(_) => Some(6),
            ExitKind::Killed => Some(9),
        }
    }
}

impl std::fmt::Display for ExitStatus {
    fn fmt(&self, f: &mut std::fmt::Formatter<'_>) -> std::fmt::Result {
        match &self.0 {
            ExitKind::Code(c) => write!(f, "exit status: {c}"),
            ExitKind::Aborted(_) => write!(f, "signal: 6 (SIGABRT)"),
            ExitKind::Killed => write!(f, "signal: 9 (SIGKILL)"),
        }
    }
}

#[derive(Debug)]
pub struct Output {
    pub status: ExitStatus,
    pub stdout: Vec<u8>,
    pub stderr: Vec<u8>,
}

#[derive(Debug)]
pub struct Command {
    pub(crate) program: String,
    pub(crate) args: Vec<String>,
    pub(crate) env: BTreeMap<String, String>,
    pub(crate) stdio: [Option<StdioCfg>; 3],
}

impl Command {
    pub fn new<S: AsRef<OsStr>>(program: S) -> Self {
        Self {
            program: program.as_ref().to_string_lossy().into_owned(),
            args: Vec::new(),
            env: BTreeMap::new(),
            stdio: [None; 3],
        }
    }
    pub fn arg<S: AsRef<OsStr>>(&mut self, a: S) -> &mut Self {
        self.args.push(a.as_ref().to_string_lossy().into_owned());
        self
    }
    pub fn args<I, S>(&mut self, it: I) -> &mut Self
    where
        I: IntoIterator<Item = S>,
        S: AsRef<OsStr>,
    {
        for a in it {
            self.arg(a);
        }
        self
    }
    pub fn env<K: AsRef<OsStr>, V: AsRef<OsStr>>(&mut self, k: K, v: V) -> &mut Self {
        self.env.insert(
            k.as_ref().to_string_lossy().into_owned(),
            v.as_ref().to_string_lossy().into_owned(),
        );
        self
    }
    pub fn stdin<T: Into<Stdio>>(&mut self, s: T) -> &mut Self {
        self.stdio[0] = Some(s.into().0);
        self
    }
    pub fn stdout<T: Into<Stdio>>(&mut self, s: T) -> &mut Self {
        self.stdio[1] = Some(s.into().0);
        self
    }
    pub fn stderr<T: Into<Stdio>>(&mut self, s: T) -> &mut Self {
        self.stdio[2] = Some(s.into().0);
        self
    }

    pub(crate) fn spawn_with(&self, default: StdioCfg) -> io::Result<ChildInfo> {
        let program = self.program.clone();
        let args = self.args.clone();
        let env = self.env.clone();
        let stdio = [
            self.stdio[0].unwrap_or(default),
            self.stdio[1].unwrap_or(default),
            self.stdio[2].unwrap_or(default),
        ];
        let sh = ctx().shared;
        flat(syscall(OpKind::Spawn, false, |_| true, move |st, rec| {
            let pid = rec.pid;
            st.sys_spawn(&sh, pid, &program, &args, &env, stdio, rec)
        }))
    }

    pub fn spawn(&mut self) -> io::Result<Child> {
        let ci = self.spawn_with(StdioCfg::Inherit)?;
        Ok(Child::from_info(ci))
    }

    pub fn output(&mut self) -> io::Result<Output> {
        let ci = self.spawn_with(StdioCfg::Piped)?;
        let mut c = Child::from_info(ci);
        drop(c.stdin.take());
        let mut out = Vec::new();
        let mut errb = Vec::new();
        if let Some(mut o) = c.stdout.take() {
            o.read_to_end(&mut out)?;
        }
        if let Some(mut e) = c.stderr.take() {
            e.read_to_end(&mut errb)?;
        }
        let status = c.wait()?;
        Ok(Output {
            status,
            stdout: out,
            stderr: errb,
        })
    }

    pub fn status(&mut self) -> io::Result<ExitStatus> {
        let mut c = self.spawn()?;
        c.wait()
    }
}

#[derive(Debug)]
pub struct PipeEnd {
    pub(crate) id: usize,
    pub(crate) write: bool,
    pub(crate) open: bool,
}

impl PipeEnd {
    pub(crate) fn close(&mut self) {
        if self.open {
            self.open = false;
            let (id, w) = (self.id, self.write);
            direct(OpKind::PipeClose, move |st, rec| {
                let pid = rec.pid;
                st.sys_pipe_close(pid, id, w, rec);
            });
        }
    }
}

impl Drop for PipeEnd {
    fn drop(&mut self) {
        self.close();
    }
}

#[derive(Debug)]
pub struct ChildStdin(pub(crate) PipeEnd);
#[derive(Debug)]
pub struct ChildStdout(pub(crate) PipeEnd);
#[derive(Debug)]
pub struct ChildStderr(pub(crate) PipeEnd);

impl Write for ChildStdin {
    fn write(&mut self, buf: &[u8]) -> io::Result<usize> {
        if buf.is_empty() {
            return Ok(0);
        }
        pipe_write(self.0.id, buf.to_vec())
    }
    fn flush(&mut self) -> io::Result<()> {
        Ok(())
    }
}

impl Read for ChildStdout {
    fn read(&mut self, buf: &mut [u8]) -> io::Result<usize> {
        if buf.is_empty() {
            return Ok(0);
        }
        let d = pipe_read(self.0.id, buf.len())?;
        buf[..d.len()].copy_from_slice(&d);
        Ok(d.len())
    }
}

impl Read for ChildStderr {
    fn read(&mut self, buf: &mut [u8]) -> io::Result<usize> {
        if buf.is_empty() {
            return Ok(0);
        }
        let d = pipe_read(self.0.id, buf.len())?;
        buf[..d.len()].copy_from_slice(&d);
        Ok(d.len())
    }
}

#[derive(Debug)]
pub struct Child {
    pub stdin: Option<ChildStdin>,
    pub stdout: Option<ChildStdout>,
    pub stderr: Option<ChildStderr>,
    pub(crate) pid: Pid,
    pub(crate) status: Option<ExitStatus>,
}

impl Child {
    pub(crate) fn from_info(ci: ChildInfo) -> Self {
        Child {
            stdin: ci.stdin.map(|id| {
                ChildStdin(PipeEnd {
                    id,
                    write: true,
                    open: true,
                })
            }),
            stdout: ci.stdout.map(|id| {
                ChildStdout(PipeEnd {
                    id,
                    write: false,
                    open: true,
                })
            }),
            stderr: ci.stderr.map(|id| {
                ChildStderr(PipeEnd {
                    id,
                    write: false,
                    open: true,
                })
            }),
            pid: ci.pid,
            status: None,
        }
    }
    pub fn id(&self) -> u32 {
        self.pid + 1000
    }
    pub fn wait(&mut self) -> io::Result<ExitStatus> {
        drop(self.stdin.take());
        if let Some(s) = &self.status {
            return Ok(s.clone());
        }
        let child = self.pid;
        let k = flat(syscall(
            OpKind::Wait,
            false,
            move |st| st.wait_enabled(child),
            move |st, rec| Ok(st.sys_wait(child, rec)),
        ))?;
        let s = ExitStatus(k);
        self.status = Some(s.clone());
        Ok(s)
    }
    pub fn wait_with_output(mut self) -> io::Result<Output> {
        drop(self.stdin.take());
        let mut out = Vec::new();
        let mut errb = Vec::new();
        if let Some(mut o) = self.stdout.take() {
            o.read_to_end(&mut out)?;
        }
        if let Some(mut e) = self.stderr.take() {
            e.read_to_end(&mut errb)?;
        }
        let status = self.wait()?;
        Ok(Output {
            status,
            stdout: out,
            stderr: errb,
        })
    }
    pub fn kill(&mut self) -> io::Result<()> {
        Ok(())
    }
}

pub fn exit(code: i32) -> ! {
    std::panic::panic_any(ExitNow(code))
}

/// Payload for `process::exit` inside a simulated process.
pub struct ExitNow(pub i32);
