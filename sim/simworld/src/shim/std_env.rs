//! `std::env` answered from the simulated process's environment.

pub use std::env::*;

use crate::kernel::{peek, try_ctx};
use std::ffi::{OsStr, OsString};
use std::path::PathBuf;

pub fn var<K: AsRef<OsStr>>(key: K) -> Result<String, VarError> {
    let k = key.as_ref().to_string_lossy().into_owned();
    if try_ctx().is_none() {
        return Err(VarError::NotPresent);
    }
    peek(move |st, pid| st.procs[pid as usize].env.get(&k).cloned()).ok_or(VarError::NotPresent)
}

pub fn var_os<K: AsRef<OsStr>>(key: K) -> Option<OsString> {
    var(key).ok().map(OsString::from)
}

pub fn current_exe() -> std::io::Result<PathBuf> {
    Ok(PathBuf::from("/sim/bin/copia"))
}

pub fn temp_dir() -> PathBuf {
    PathBuf::from("/tmp")
}

pub fn current_dir() -> std::io::Result<PathBuf> {
    Ok(PathBuf::from(peek(|st, pid| {
        st.procs[pid as usize].cwd.clone()
    })))
}
