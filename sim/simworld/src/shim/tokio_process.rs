//! `tokio::process` over the simulator's process table.

use super::flat;
use super::std_process::{ExitStatus, Output, PipeEnd, Stdio};
use crate::kernel::{AsyncOp, OpKind, Pid};
use crate::sys::StdioCfg;
use std::ffi::OsStr;
use std::io;
use std::pin::Pin;
use std::task::{Context, Poll};
use tokio::io::{AsyncRead, AsyncReadExt, AsyncWrite, ReadBuf};

#[derive(Debug)]
pub struct Command {
    inner: super::std_process::Command,
}

impl Command {
    pub fn new<S: AsRef<OsStr>>(program: S) -> Self {
        Self {
            inner: super::std_process::Command::new(program),
        }
    }
    pub fn arg<S: AsRef<OsStr>>(&mut self, a: S) -> &mut Self {
        self.inner.arg(a);
        self
    }
    pub fn args<I, S>(&mut self, it: I) -> &mut Self
    where
        I: IntoIterator<Item = S>,
        S: AsRef<OsStr>,
    {
        self.inner.args(it);
        self
    }
    pub fn env<K: AsRef<OsStr>, V: AsRef<OsStr>>(&mut self, k: K, v: V) -> &mut Self {
        self.inner.env(k, v);
        self
    }
    pub fn stdin<T: Into<Stdio>>(&mut self, s: T) -> &mut Self {
        self.inner.stdin(s);
        self
    }
    pub fn stdout<T: Into<Stdio>>(&mut self, s: T) -> &mut Self {
        self.inner.stdout(s);
        self
    }
    pub fn stderr<T: Into<Stdio>>(&mut self, s: T) -> &mut Self {
        self.inner.stderr(s);
        self
    }
    pub fn kill_on_drop(&mut self, _v: bool) -> &mut Self {
        self
    }

    pub fn spawn(&mut self) -> io::Result<Child> {
        let ci = self.inner.spawn_with(StdioCfg::Inherit)?;
        Ok(Child::from_info(ci))
    }

    pub async fn output(&mut self) -> io::Result<Output> {
        let ci = self.inner.spawn_with(StdioCfg::Piped)?;
        Child::from_info(ci).wait_with_output().await
    }

    pub async fn status(&mut self) -> io::Result<ExitStatus> {
        let mut c = self.spawn()?;
        c.wait().await
    }
}

type RdOp = AsyncOp<io::Result<Vec<u8>>>;
type WrOp = AsyncOp<io::Result<usize>>;

#[derive(Debug)]
pub struct ChildStdin {
    end: PipeEnd,
    op: Option<WrOp>,
}

pub struct ChildStdout {
    end: PipeEnd,
    op: Option<RdOp>,
}

pub struct ChildStderr {
    end: PipeEnd,
    op: Option<RdOp>,
}

impl<T> std::fmt::Debug for AsyncOp<T> {
    fn fmt(&self, f: &mut std::fmt::Formatter<'_>) -> std::fmt::Result {
        write!(f, "AsyncOp")
    }
}
impl std::fmt::Debug for ChildStdout {
    fn fmt(&self, f: &mut std::fmt::Formatter<'_>) -> std::fmt::Result {
        write!(f, "ChildStdout({})", self.end.id)
    }
}
impl std::fmt::Debug for ChildStderr {
    fn fmt(&self, f: &mut std::fmt::Formatter<'_>) -> std::fmt::Result {
        write!(f, "ChildStderr({})", self.end.id)
    }
}

fn poll_pipe_read(
    id: usize,
    slot: &mut Option<RdOp>,
    cx: &mut Context<'_>,
    buf: &mut ReadBuf<'_>,
) -> Poll<io::Result<()>> {
    if slot.is_none() {
        let want = buf.remaining();
        if want == 0 {
            return Poll::Ready(Ok(()));
        }
        *slot = Some(AsyncOp::new(
            OpKind::PipeRead,
            false,
            move |st| st.pipe_read_enabled(id),
            move |st, rec| {
                let pid = rec.pid;
                st.sys_pipe_read(pid, id, want, rec)
            },
        ));
    }
    match slot.as_mut().unwrap().poll_op(cx) {
        Poll::Pending => Poll::Pending,
        Poll::Ready(r) => {
            *slot = None;
            let d = flat(r)?;
            let n = d.len().min(buf.remaining());
            buf.put_slice(&d[..n]);
            Poll::Ready(Ok(()))
        }
    }
}

impl AsyncRead for ChildStdout {
    fn poll_read(
        self: Pin<&mut Self>,
        cx: &mut Context<'_>,
        buf: &mut ReadBuf<'_>,
    ) -> Poll<io::Result<()>> {
        let me = self.get_mut();
        poll_pipe_read(me.end.id, &mut me.op, cx, buf)
    }
}

impl AsyncRead for ChildStderr {
    fn poll_read(
        self: Pin<&mut Self>,
        cx: &mut Context<'_>,
        buf: &mut ReadBuf<'_>,
    ) -> Poll<io::Result<()>> {
        let me = self.get_mut();
        poll_pipe_read(me.end.id, &mut me.op, cx, buf)
    }
}

impl AsyncWrite for ChildStdin {
    fn poll_write(
        self: Pin<&mut Self>,
        cx: &mut Context<'_>,
        data: &[u8],
    ) -> Poll<io::Result<usize>> {
        let me = self.get_mut();
        if me.op.is_none() {
            if data.is_empty() {
                return Poll::Ready(Ok(0));
            }
            let id = me.end.id;
            let v = data.to_vec();
            me.op = Some(AsyncOp::new(
                OpKind::PipeWrite,
                false,
                move |st| st.pipe_write_enabled(id),
                move |st, rec| {
                    let pid = rec.pid;
                    st.sys_pipe_write(pid, id, &v, rec)
                },
            ));
        }
        match me.op.as_mut().unwrap().poll_op(cx) {
            Poll::Pending => Poll::Pending,
            Poll::Ready(r) => {
                me.op = None;
                Poll::Ready(flat(r))
            }
        }
    }
    fn poll_flush(self: Pin<&mut Self>, _cx: &mut Context<'_>) -> Poll<io::Result<()>> {
        Poll::Ready(Ok(()))
    }
    fn poll_shutdown(self: Pin<&mut Self>, _cx: &mut Context<'_>) -> Poll<io::Result<()>> {
        let me = self.get_mut();
        me.op = None;
        me.end.close();
        Poll::Ready(Ok(()))
    }
}

impl Drop for ChildStdin {
    fn drop(&mut self) {
        self.op = None;
    }
}
impl Drop for ChildStdout {
    fn drop(&mut self) {
        self.op = None;
    }
}
impl Drop for ChildStderr {
    fn drop(&mut self) {
        self.op = None;
    }
}

#[derive(Debug)]
pub struct Child {
    pub stdin: Option<ChildStdin>,
    pub stdout: Option<ChildStdout>,
    pub stderr: Option<ChildStderr>,
    pid: Pid,
    status: Option<ExitStatus>,
}

impl Child {
    pub(crate) fn from_info(ci: crate::sys::ChildInfo) -> Self {
        Child {
            stdin: ci.stdin.map(|id| ChildStdin {
                end: PipeEnd {
                    id,
                    write: true,
                    open: true,
                },
                op: None,
            }),
            stdout: ci.stdout.map(|id| ChildStdout {
                end: PipeEnd {
                    id,
                    write: false,
                    open: true,
                },
                op: None,
            }),
            stderr: ci.stderr.map(|id| ChildStderr {
                end: PipeEnd {
                    id,
                    write: false,
                    open: true,
                },
                op: None,
            }),
            pid: ci.pid,
            status: None,
        }
    }

    pub fn id(&self) -> Option<u32> {
        Some(self.pid + 1000)
    }

    pub async fn wait(&mut self) -> io::Result<ExitStatus> {
        drop(self.stdin.take());
        if let Some(s) = &self.status {
            return Ok(s.clone());
        }
        let child = self.pid;
        let k = flat(
            AsyncOp::new(
                OpKind::Wait,
                false,
                move |st| st.wait_enabled(child),
                move |st, rec| Ok(st.sys_wait(child, rec)),
            )
            .await,
        )?;
        let s = ExitStatus(k);
        self.status = Some(s.clone());
        Ok(s)
    }

    pub async fn wait_with_output(mut self) -> io::Result<Output> {
        drop(self.stdin.take());
        let mut so = self.stdout.take();
        let mut se = self.stderr.take();
        let out_fut = async {
            let mut v = Vec::new();
            if let Some(o) = so.as_mut() {
                o.read_to_end(&mut v).await?;
            }
            drop(so.take());
            Ok::<_, io::Error>(v)
        };
        let err_fut = async {
            let mut v = Vec::new();
            if let Some(e) = se.as_mut() {
                e.read_to_end(&mut v).await?;
            }
            drop(se.take());
            Ok::<_, io::Error>(v)
        };
        let (stdout, stderr) = tokio::try_join!(out_fut, err_fut)?;
        let status = self.wait().await?;
        Ok(Output {
            status,
            stdout,
            stderr,
        })
    }

    pub async fn kill(&mut self) -> io::Result<()> {
        Ok(())
    }
    pub fn start_kill(&mut self) -> io::Result<()> {
        Ok(())
    }
}
