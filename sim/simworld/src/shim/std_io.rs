//! `std::io` with the process's own stdin/stdout/stderr routed to the simulator.

pub use std::io::*;

use super::flat;
use crate::kernel::{peek, syscall, Fd, OpKind};
use std::io;

pub(crate) fn pipe_read(id: usize, max: usize) -> io::Result<Vec<u8>> {
    flat(syscall(
        OpKind::PipeRead,
        false,
        move |st| st.pipe_read_enabled(id),
        move |st, rec| {
            let pid = rec.pid;
            st.sys_pipe_read(pid, id, max, rec)
        },
    ))
}

pub(crate) fn pipe_write(id: usize, data: Vec<u8>) -> io::Result<usize> {
    flat(syscall(
        OpKind::PipeWrite,
        false,
        move |st| st.pipe_write_enabled(id),
        move |st, rec| {
            let pid = rec.pid;
            st.sys_pipe_write(pid, id, &data, rec)
        },
    ))
}

fn my_fd(idx: usize) -> Fd {
    peek(move |st, pid| st.procs[pid as usize].stdio[idx])
}

pub struct Stdin;
pub struct StdinLock;

pub fn stdin() -> Stdin {
    Stdin
}

impl Stdin {
    pub fn lock(&self) -> StdinLock {
        StdinLock
    }
    pub fn read_line(&self, buf: &mut String) -> io::Result<usize> {
        let mut n = 0;
        let mut b = [0u8; 1];
        loop {
            if fd_read(0, &mut b)? == 0 {
                break;
            }
            n += 1;
            buf.push(b[0] as char);
            if b[0] == b'\n' {
                break;
            }
        }
        Ok(n)
    }
}

fn fd_read(idx: usize, buf: &mut [u8]) -> io::Result<usize> {
    if buf.is_empty() {
        return Ok(0);
    }
    match my_fd(idx) {
        Fd::Pipe { id, write: false } => {
            let d = pipe_read(id, buf.len())?;
            buf[..d.len()].copy_from_slice(&d);
            Ok(d.len())
        }
        _ => Ok(0),
    }
}

impl Read for Stdin {
    fn read(&mut self, buf: &mut [u8]) -> io::Result<usize> {
        fd_read(0, buf)
    }
}
impl Read for StdinLock {
    fn read(&mut self, buf: &mut [u8]) -> io::Result<usize> {
        fd_read(0, buf)
    }
}

fn fd_write(idx: usize, buf: &[u8]) -> io::Result<usize> {
    if buf.is_empty() {
        return Ok(0);
    }
    match my_fd(idx) {
        Fd::Pipe { id, write: true } => pipe_write(id, buf.to_vec()),
        Fd::Capture(_) => {
            let v = buf.to_vec();
            peek(move |st, pid| st.fd_write(pid, idx, &v));
            Ok(buf.len())
        }
        _ => Ok(buf.len()),
    }
}

pub struct Stdout;
pub struct StdoutLock;
pub struct Stderr;
pub struct StderrLock;

pub fn stdout() -> Stdout {
    Stdout
}
pub fn stderr() -> Stderr {
    Stderr
}
impl Stdout {
    pub fn lock(&self) -> StdoutLock {
        StdoutLock
    }
}
impl Stderr {
    pub fn lock(&self) -> StderrLock {
        StderrLock
    }
}
macro_rules! wr {
    ($t:ty, $idx:expr) => {
        impl Write for $t {
            fn write(&mut self, buf: &[u8]) -> io::Result<usize> {
                fd_write($idx, buf)
            }
            fn flush(&mut self) -> io::Result<()> {
                Ok(())
            }
        }
    };
}
wr!(Stdout, 1);
wr!(StdoutLock, 1);
wr!(Stderr, 2);
wr!(StderrLock, 2);
