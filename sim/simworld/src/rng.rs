//! One integer decides everything: splitmix64 seeding + xoshiro256** streams.
//! No logging path ever draws from these.

#[derive(Clone, Debug)]
pub struct Rng {
    s: [u64; 4],
}

pub fn splitmix(x: &mut u64) -> u64 {
    *x = x.wrapping_add(0x9E37_79B9_7F4A_7C15);
    let mut z = *x;
    z = (z ^ (z >> 30)).wrapping_mul(0xBF58_476D_1CE4_E5B9);
    z = (z ^ (z >> 27)).wrapping_mul(0x94D0_49BB_1331_11EB);
    z ^ (z >> 31)
}

/// Derive an independent seed from (seed, tag, index).
pub fn derive(seed: u64, tag: &str, index: u64) -> u64 {
    let mut x = seed ^ 0xC0_91A5_EED0_0001;
    let mut acc = splitmix(&mut x);
    for b in tag.bytes() {
        x ^= u64::from(b).wrapping_mul(0x100_0000_01B3);
        acc ^= splitmix(&mut x);
    }
    x ^= index.wrapping_mul(0xD6E8_FEB8_6659_FD93);
    acc ^ splitmix(&mut x)
}

impl Rng {
    pub fn new(seed: u64) -> Self {
        let mut x = seed;
        let s = [
            splitmix(&mut x),
            splitmix(&mut x),
            splitmix(&mut x),
            splitmix(&mut x),
        ];
        Self { s }
    }
    pub fn fork(&mut self, tag: &str) -> Rng {
        let v = self.next_u64();
        Rng::new(derive(v, tag, 0))
    }
    pub fn next_u64(&mut self) -> u64 {
        let r = self.s[1].wrapping_mul(5).rotate_left(7).wrapping_mul(9);
        let t = self.s[1] << 17;
        self.s[2] ^= self.s[0];
        self.s[3] ^= self.s[1];
        self.s[1] ^= self.s[2];
        self.s[0] ^= self.s[3];
        self.s[2] ^= t;
        self.s[3] = self.s[3].rotate_left(45);
        r
    }
    /// Uniform in 0..n (n > 0).
    pub fn below(&mut self, n: u64) -> u64 {
        debug_assert!(n > 0);
        if n <= 1 {
            return 0;
        }
        // multiply-shift; bias is irrelevant here
        ((u128::from(self.next_u64()) * u128::from(n)) >> 64) as u64
    }
    pub fn usize_below(&mut self, n: usize) -> usize {
        self.below(n as u64) as usize
    }
    /// Uniform in lo..=hi.
    pub fn range(&mut self, lo: u64, hi: u64) -> u64 {
        lo + self.below(hi - lo + 1)
    }
    pub fn urange(&mut self, lo: usize, hi: usize) -> usize {
        self.range(lo as u64, hi as u64) as usize
    }
    /// True with probability num/den.
    pub fn chance(&mut self, num: u64, den: u64) -> bool {
        self.below(den) < num
    }
    pub fn coin(&mut self) -> bool {
        self.next_u64() & 1 == 1
    }
    pub fn pick<'a, T>(&mut self, xs: &'a [T]) -> &'a T {
        &xs[self.usize_below(xs.len())]
    }
    pub fn fill(&mut self, buf: &mut [u8]) {
        for c in buf.chunks_mut(8) {
            let v = self.next_u64().to_le_bytes();
            c.copy_from_slice(&v[..c.len()]);
        }
    }
    pub fn bytes(&mut self, n: usize) -> Vec<u8> {
        let mut v = vec![0u8; n];
        self.fill(&mut v);
        v
    }
    pub fn shuffle<T>(&mut self, xs: &mut [T]) {
        for i in (1..xs.len()).rev() {
            let j = self.usize_below(i + 1);
            xs.swap(i, j);
        }
    }
}
