//! The simulator kernel: process table, baton scheduler, pipes, open-file table,
//! fault plan, trace. Only the thread holding the baton runs; whoever parks makes the
//! next scheduling decision from the run's PRNG, so one seed is one execution.

use crate::fs::{self, err, Ino, Kind, Meta, OpenFlags, SimFs};
use crate::rng::Rng;
use std::any::Any;
use std::cell::{Cell, RefCell};
use std::collections::{BTreeMap, VecDeque};
use std::io;
use std::sync::{Arc, Condvar, Mutex, MutexGuard};
use std::task::Waker;

pub type Pid = u32;

/// Panic payload used to unwind a simulated process that was killed.
pub struct Killed;

#[derive(Clone, Debug, Default)]
pub struct World {
    pub hosts: BTreeMap<String, SimFs>,
    pub clock_ns: u64,
}

impl World {
    pub fn new() -> Self {
        Self {
            hosts: BTreeMap::new(),
            clock_ns: 1_700_000_000_000_000_000,
        }
    }
    pub fn host(&mut self, name: &str) -> &mut SimFs {
        self.hosts.entry(name.to_string()).or_default()
    }
    pub fn fs(&self, name: &str) -> &SimFs {
        &self.hosts[name]
    }
}

#[derive(Clone, Copy, Debug, PartialEq, Eq, PartialOrd, Ord, Hash)]
pub enum OpKind {
    Start,
    Stat,
    Open,
    Read,
    Write,
    Fsync,
    Close,
    Rename,
    Unlink,
    Mkdir,
    Rmdir,
    Readdir,
    Readlink,
    Canon,
    SetMtime,
    SetLen,
    Lock,
    Unlock,
    PipeRead,
    PipeWrite,
    PipeClose,
    Spawn,
    Wait,
    Exit,
    KillMark,
    /// a spawned tokio task becoming runnable (start order is the scheduler's choice)
    TaskStart,
    /// `thread::sleep` / `tokio::time::sleep`: completes when scheduled and moves the clock on
    Sleep,
    /// link(2)
    Link,
}

#[derive(Clone, Copy, Debug, PartialEq, Eq)]
pub enum OpClass {
    Any,
    /// file-system-mutating call: open-for-write/create, write, fsync, rename, unlink, mkdir, ...
    Mutating,
    /// Mutating or a write to a pipe
    MutatingOrPipeWrite,
    /// any file-system call (incl. stat/open/read) — "k-th file-system call"
    FsCall,
}

const NCLASS: usize = 4;
fn class_idx(c: OpClass) -> usize {
    match c {
        OpClass::Any => 0,
        OpClass::Mutating => 1,
        OpClass::MutatingOrPipeWrite => 2,
        OpClass::FsCall => 3,
    }
}

#[derive(Clone, Debug)]
pub struct OpRec {
    pub seq: u64,
    pub t_ns: u64,
    pub pid: Pid,
    pub host: String,
    pub kind: OpKind,
    /// resolved absolute path(s) of the object(s) the call names ("" if none)
    pub path: String,
    pub path2: String,
    pub bytes: u64,
    /// statically: this call is of a mutating kind (counted for crash sweeps)
    pub mutating: bool,
    /// the call succeeded
    pub ok: bool,
    pub errno: i32,
    /// the call changed file-system state (a failing mkdir does not)
    pub effect: bool,
    pub injected: bool,
    pub ino: Ino,
}

#[derive(Clone, Debug)]
pub enum Policy {
    Uniform,
    Sticky { switch_pct: u32 },
    Pct { depth: u32, est_steps: u32 },
    Sequential,
    Replay(Vec<(Pid, u64)>),
}

#[derive(Clone, Debug, PartialEq, Eq)]
pub enum ProcSel {
    Pid(Pid),
    Role(String),
}

#[derive(Clone, Debug)]
pub enum Fault {
    /// kill the selected process immediately before its nth (1-based) op of `class`
    KillAtOp {
        target: ProcSel,
        nth: u32,
        class: OpClass,
    },
    /// make the nth (1-based) op of `kind` of the selected process fail with errno
    FailOp {
        target: ProcSel,
        nth: u32,
        kind: OpKind,
        errno: i32,
    },
    /// the nth (1-based) file write of the selected process accepts only part of the buffer
    /// (a short write: legal for write(2), e.g. when space or a size limit runs out)
    ShortWrite {
        target: ProcSel,
        nth: u32,
    },
}

#[derive(Clone, Debug)]
pub struct RunCfg {
    pub seed: u64,
    pub policy: Policy,
    pub pipe_cap: usize,
    pub copy_chunk: usize,
    /// percentage of reads (pipe and file) that return fewer bytes than available
    pub short_read_pct: u32,
    pub readdir_seed: Option<u64>,
    pub op_budget: u64,
    pub faults: Vec<Fault>,
    /// percentage of steps at which the clock jumps by >= 1 s
    pub clock_jump_pct: u32,
    pub record_trace: bool,
}

impl Default for RunCfg {
    fn default() -> Self {
        Self {
            seed: 0,
            policy: Policy::Uniform,
            pipe_cap: 65536,
            copy_chunk: 65536,
            short_read_pct: 0,
            readdir_seed: None,
            op_budget: 200_000,
            faults: Vec::new(),
            clock_jump_pct: 0,
            record_trace: true,
        }
    }
}

#[derive(Clone, Debug, PartialEq, Eq)]
pub enum ExitKind {
    Code(i32),
    /// panic (== abort in the shipped profile) with message
    Aborted(String),
    Killed,
}

#[derive(Clone, Debug, PartialEq, Eq)]
pub enum Status {
    Parked,
    Running,
    Exited(ExitKind),
}

#[derive(Clone, Copy, Debug, PartialEq, Eq)]
pub enum Fd {
    Null,
    Capture(usize),
    Pipe { id: usize, write: bool },
}

pub struct Pipe {
    pub buf: VecDeque<u8>,
    pub cap: usize,
    pub readers: u32,
    pub writers: u32,
    pub total: u64,
}

pub struct Ofd {
    pub pid: Pid,
    pub host: String,
    pub ino: Ino,
    pub read: bool,
    pub write: bool,
    pub append: bool,
    pub path: String,
}

type ExecFn = Box<dyn FnOnce(&mut State, &mut OpRec) -> Box<dyn Any + Send> + Send + Sync>;
type EnabledFn = Box<dyn Fn(&State) -> bool + Send + Sync>;

pub struct PendingOp {
    pub id: u64,
    pub kind: OpKind,
    pub mutating: bool,
    pub enabled: EnabledFn,
    pub exec: ExecFn,
    pub waker: Option<Waker>,
    pub is_async: bool,
    /// the issuer no longer waits for it (a tokio::fs::File dropped with a write in flight):
    /// it still executes; its result is discarded
    pub detached: bool,
}

pub type ProgramFn = Box<dyn FnOnce() -> i32 + Send>;
pub type Resolver = Arc<dyn Fn(&SpawnReq) -> Option<ProgramFn> + Send + Sync>;

#[derive(Clone, Debug)]
pub struct SpawnReq {
    pub host: String,
    pub program: String,
    pub args: Vec<String>,
    pub env: BTreeMap<String, String>,
    pub cwd: String,
}

pub struct Proc {
    pub pid: Pid,
    pub ppid: Option<Pid>,
    pub role: String,
    pub host: String,
    pub argv: Vec<String>,
    pub env: BTreeMap<String, String>,
    pub cwd: String,
    pub stdio: [Fd; 3],
    pub status: Status,
    pub killed: bool,
    pub baton: bool,
    pub cv: Arc<Condvar>,
    pub pending: Vec<PendingOp>,
    pub results: BTreeMap<u64, Box<dyn Any + Send>>,
    pub wake_list: Vec<Waker>,
    pub next_op: u64,
    pub counts: [u32; NCLASS],
    pub kind_counts: BTreeMap<OpKind, u32>,
    pub pipe_ends: Vec<(usize, bool)>,
    pub thread: Option<std::thread::JoinHandle<()>>,
    pub cap_out: Option<usize>,
    pub cap_err: Option<usize>,
    /// largest single allocation request made by the process's own code
    pub alloc_peak: usize,
}

#[derive(Clone, Debug, Default)]
pub struct Stats {
    pub steps: u64,
    pub switches: u64,
    pub kills: u64,
    pub injected_errors: u64,
    pub short_reads: u64,
    pub short_writes: u64,
    pub clock_jumps: u64,
    pub pipe_blocks: u64,
    pub lock_waits: u64,
    pub max_pending: usize,
}

pub type StepHook = Box<dyn FnMut(&State, &OpRec) -> Result<(), String> + Send>;

pub struct State {
    pub world: World,
    pub cfg: RunCfg,
    pub procs: Vec<Proc>,
    pub pipes: Vec<Pipe>,
    pub ofds: BTreeMap<u64, Ofd>,
    next_ofd: u64,
    /// flock(2) state per file: the open file descriptions holding it and whether the hold is shared
    pub locks: BTreeMap<(String, Ino), (bool, Vec<u64>)>,
    pub captures: Vec<Vec<u8>>,
    pub trace: Vec<OpRec>,
    pub decisions: Vec<(Pid, u64)>,
    pub seq: u64,
    pub rng_sched: Rng,
    pub rng_io: Rng,
    pub stats: Stats,
    pub resolver: Option<Resolver>,
    pub hooks: Vec<StepHook>,
    pub violations: Vec<(u64, String)>,
    pub finished: bool,
    pub aborting: bool,
    pub deadlock: bool,
    pub budget_exceeded: bool,
    last_pid: Option<Pid>,
    pct_prio: BTreeMap<Pid, i64>,
    pct_points: Vec<u64>,
    pct_low: i64,
    replay_pos: usize,
    pub replay_diverged: bool,
    /// shape hash of the executed op sequence (role, kind) — interleaving measure
    pub shape: u64,
    /// hash of the complete op trace (paths, sizes, results, simulated times)
    pub trace_fp: u64,
}

pub struct Shared {
    pub st: Mutex<State>,
    pub done: Condvar,
}

#[derive(Clone)]
pub struct Ctx {
    pub shared: Arc<Shared>,
    pub pid: Pid,
}

thread_local! {
    pub static CTX: RefCell<Option<Ctx>> = const { RefCell::new(None) };
    /// set by the panic hook when copia code panics (== abort in the shipped profile)
    pub static ABORT_MSG: RefCell<Option<String>> = const { RefCell::new(None) };
    /// activity counter for tokio quiescence detection
    pub static ACTIVITY: Cell<u64> = const { Cell::new(0) };
    /// harness threads that catch_unwind library calls set this to keep stderr quiet
    pub static QUIET_PANICS: Cell<bool> = const { Cell::new(false) };
    /// accumulated fingerprint of every simulation finished on this (harness) thread
    pub static RUN_FP: Cell<u64> = const { Cell::new(0) };
    pub static RUN_FP_DEEP: Cell<bool> = const { Cell::new(false) };
    /// when armed, every finished simulation appends its schedule-and-fault trace here
    pub static TRACE_DUMP: RefCell<Option<Vec<String>>> = const { RefCell::new(None) };
}

/// Arm / collect the human-readable schedule-and-fault trace of the simulations run on this
/// thread (used when a replay file is written).
pub fn arm_trace_dump() {
    TRACE_DUMP.with(|t| *t.borrow_mut() = Some(Vec::new()));
}
pub fn take_trace_dump() -> Vec<String> {
    TRACE_DUMP.with(|t| t.borrow_mut().take().unwrap_or_default())
}

/// Reset / read the per-thread accumulated run fingerprint (determinism self-test).
pub fn reset_run_fp(deep: bool) {
    RUN_FP.with(|f| f.set(0x9E37_79B9_7F4A_7C15));
    RUN_FP_DEEP.with(|d| d.set(deep));
}
pub fn take_run_fp() -> u64 {
    RUN_FP.with(|f| f.get())
}
fn mix_run_fp(v: u64) {
    RUN_FP.with(|f| f.set((f.get() ^ v).wrapping_mul(0x100_0000_01B3).rotate_left(17)));
}

/// Run `f`, converting a panic into Err(message) without printing it.
pub fn catch_quiet<T>(f: impl FnOnce() -> T) -> Result<T, String> {
    init();
    QUIET_PANICS.with(|q| q.set(true));
    let r = std::panic::catch_unwind(std::panic::AssertUnwindSafe(f));
    QUIET_PANICS.with(|q| q.set(false));
    r.map_err(|p| {
        if let Some(s) = p.downcast_ref::<&str>() {
            (*s).to_string()
        } else if let Some(s) = p.downcast_ref::<String>() {
            s.clone()
        } else {
            "panic".to_string()
        }
    })
}

pub fn bump_activity() {
    ACTIVITY.with(|a| a.set(a.get().wrapping_add(1)));
}

pub fn ctx() -> Ctx {
    CTX.with(|c| c.borrow().clone())
        .expect("simworld shim called outside a simulated process")
}

pub fn try_ctx() -> Option<Ctx> {
    CTX.with(|c| c.borrow().clone())
}

pub fn lock(sh: &Shared) -> MutexGuard<'_, State> {
    match sh.st.lock() {
        Ok(g) => g,
        Err(p) => p.into_inner(),
    }
}

/// Install the global panic hook once: silent for `Killed`, records the message for
/// panics raised inside simulated processes, default behaviour elsewhere.
pub fn init() {
    use std::sync::Once;
    static ONCE: Once = Once::new();
    ONCE.call_once(|| {
        let default = std::panic::take_hook();
        std::panic::set_hook(Box::new(move |info| {
            if info.payload().is::<Killed>() || QUIET_PANICS.with(|q| q.get()) {
                return;
            }
            if try_ctx().is_some() {
                let msg = if let Some(s) = info.payload().downcast_ref::<&str>() {
                    (*s).to_string()
                } else if let Some(s) = info.payload().downcast_ref::<String>() {
                    s.clone()
                } else {
                    "panic".to_string()
                };
                let loc = info
                    .location()
                    .map(|l| format!(" at {}:{}", l.file(), l.line()))
                    .unwrap_or_default();
                ABORT_MSG.with(|m| {
                    let mut m = m.borrow_mut();
                    if m.is_none() {
                        *m = Some(format!("{msg}{loc}"));
                    }
                });
                return;
            }
            default(info);
        }));
    });
}

/// Returned by shim entry points when the calling process is dead and unwinding.
#[derive(Debug)]
pub struct Dead;

pub fn dead_err() -> io::Error {
    io::Error::new(io::ErrorKind::Other, "simulated process is dead")
}

impl State {
    pub fn new(world: World, cfg: RunCfg) -> Self {
        let mut r = Rng::new(cfg.seed);
        let rng_sched = r.fork("sched");
        let rng_io = r.fork("io");
        let mut s = Self {
            world,
            cfg,
            procs: Vec::new(),
            pipes: Vec::new(),
            ofds: BTreeMap::new(),
            next_ofd: 1,
            locks: BTreeMap::new(),
            captures: Vec::new(),
            trace: Vec::new(),
            decisions: Vec::new(),
            seq: 0,
            rng_sched,
            rng_io,
            stats: Stats::default(),
            resolver: None,
            hooks: Vec::new(),
            violations: Vec::new(),
            finished: false,
            aborting: false,
            deadlock: false,
            budget_exceeded: false,
            last_pid: None,
            pct_prio: BTreeMap::new(),
            pct_points: Vec::new(),
            pct_low: 0,
            replay_pos: 0,
            replay_diverged: false,
            shape: 0xcbf2_9ce4_8422_2325,
            trace_fp: 0x1234_5678_9abc_def1,
        };
        if let Policy::Pct { depth, est_steps } = s.cfg.policy {
            for _ in 0..depth {
                let p = s.rng_sched.below(u64::from(est_steps.max(1)));
                s.pct_points.push(p);
            }
        }
        s
    }

    pub fn now(&self) -> u64 {
        self.world.clock_ns
    }

    pub fn fs(&mut self, host: &str) -> &mut SimFs {
        self.world.hosts.entry(host.to_string()).or_default()
    }

    pub fn new_pipe(&mut self, cap: usize) -> usize {
        self.pipes.push(Pipe {
            buf: VecDeque::new(),
            cap,
            readers: 0,
            writers: 0,
            total: 0,
        });
        self.pipes.len() - 1
    }

    pub fn new_capture(&mut self) -> usize {
        self.captures.push(Vec::new());
        self.captures.len() - 1
    }

    fn fd_acquire(&mut self, fd: Fd) {
        if let Fd::Pipe { id, write } = fd {
            if write {
                self.pipes[id].writers += 1;
            } else {
                self.pipes[id].readers += 1;
            }
        }
    }
    fn fd_release(&mut self, fd: Fd) {
        if let Fd::Pipe { id, write } = fd {
            if write {
                self.pipes[id].writers = self.pipes[id].writers.saturating_sub(1);
            } else {
                self.pipes[id].readers = self.pipes[id].readers.saturating_sub(1);
            }
        }
    }

    /// Absolute, physical path of `path` as seen by `pid` (for the trace).
    pub fn abs(&self, pid: Pid, path: &str) -> String {
        let p = &self.procs[pid as usize];
        let Some(fsys) = self.world.hosts.get(&p.host) else {
            return lexical(&p.cwd, path);
        };
        match fsys.resolve(&p.cwd, path, false) {
            Ok(r) => {
                if r.name.is_empty() {
                    r.ino
                        .map(|i| fsys.path_of_dir(i))
                        .unwrap_or_else(|| lexical(&p.cwd, path))
                } else {
                    let base = fsys.path_of_dir(r.parent);
                    format!("{}/{}", base.trim_end_matches('/'), r.name)
                }
            }
            Err(_) => lexical(&p.cwd, path),
        }
    }

    fn sel_matches(&self, sel: &ProcSel, pid: Pid) -> bool {
        match sel {
            ProcSel::Pid(p) => *p == pid,
            ProcSel::Role(r) => self.procs[pid as usize].role == *r,
        }
    }

    /// Called when `pid` submits an op: bump class counters, decide kill-before-op.
    fn note_submission(&mut self, pid: Pid, kind: OpKind, mutating: bool) -> bool {
        let fs_call = matches!(
            kind,
            OpKind::Stat
                | OpKind::Open
                | OpKind::Read
                | OpKind::Write
                | OpKind::Fsync
                | OpKind::Rename
                | OpKind::Link
                | OpKind::Unlink
                | OpKind::Mkdir
                | OpKind::Rmdir
                | OpKind::Readdir
                | OpKind::Readlink
                | OpKind::Canon
                | OpKind::SetMtime
                | OpKind::SetLen
                | OpKind::Lock
                | OpKind::Unlock
        );
        let classes = [
            (OpClass::Any, true),
            (OpClass::Mutating, mutating),
            (
                OpClass::MutatingOrPipeWrite,
                mutating || kind == OpKind::PipeWrite,
            ),
            (OpClass::FsCall, fs_call),
        ];
        let mut kill = false;
        for (c, hit) in classes {
            if !hit {
                continue;
            }
            let p = &mut self.procs[pid as usize];
            p.counts[class_idx(c)] += 1;
            let n = p.counts[class_idx(c)];
            for f in &self.cfg.faults {
                if let Fault::KillAtOp { target, nth, class } = f {
                    if *class == c && *nth == n && self.sel_matches(target, pid) {
                        kill = true;
                    }
                }
            }
        }
        kill
    }

    /// Injected error for the op being executed now, if the fault plan says so.
    pub fn inject(&mut self, pid: Pid, kind: OpKind, rec: &mut OpRec) -> Option<io::Error> {
        let n = {
            let p = &mut self.procs[pid as usize];
            let e = p.kind_counts.entry(kind).or_insert(0);
            *e += 1;
            *e
        };
        let mut hit = None;
        for f in &self.cfg.faults {
            if let Fault::FailOp {
                target,
                nth,
                kind: k,
                errno,
            } = f
            {
                if *k == kind && *nth == n && self.sel_matches(target, pid) {
                    hit = Some(*errno);
                }
            }
        }
        hit.map(|e| {
            self.stats.injected_errors += 1;
            rec.injected = true;
            rec.ok = false;
            rec.errno = e;
            err(e)
        })
    }

    /// Does the fault plan cut short the file write being executed now (count kept by `inject`)?
    pub fn short_write_now(&mut self, pid: Pid) -> bool {
        let n = self.procs[pid as usize].kind_counts.get(&OpKind::Write).copied().unwrap_or(0);
        let mut hit = false;
        for f in &self.cfg.faults {
            if let Fault::ShortWrite { target, nth } = f {
                if *nth == n && self.sel_matches(target, pid) {
                    hit = true;
                }
            }
        }
        hit
    }

    /// Release everything a dying process holds. Orphaned children keep running.
    pub fn release_proc(&mut self, pid: Pid) {
        let ofds: Vec<u64> = self
            .ofds
            .iter()
            .filter(|(_, o)| o.pid == pid)
            .map(|(k, _)| *k)
            .collect();
        for id in ofds {
            self.close_ofd(id);
        }
        let ends = std::mem::take(&mut self.procs[pid as usize].pipe_ends);
        for (id, write) in ends {
            self.fd_release(Fd::Pipe { id, write });
        }
        let stdio = self.procs[pid as usize].stdio;
        for fd in stdio {
            self.fd_release(fd);
        }
        self.procs[pid as usize].stdio = [Fd::Null; 3];
        self.procs[pid as usize].pending.clear();
        self.procs[pid as usize].results.clear();
    }

    pub fn close_ofd(&mut self, id: u64) {
        if let Some(o) = self.ofds.remove(&id) {
            let key = (o.host.clone(), o.ino);
            self.lock_release(&key, id);
            self.fs(&o.host).close(o.ino);
        }
    }

    pub fn kill_proc(&mut self, pid: Pid) {
        if self.procs[pid as usize].killed {
            return;
        }
        self.procs[pid as usize].killed = true;
        self.stats.kills += 1;
        let mut rec = self.blank_rec(pid, OpKind::KillMark, false);
        rec.ok = true;
        self.release_proc(pid);
        self.finish_rec(rec);
    }

    pub fn blank_rec(&self, pid: Pid, kind: OpKind, mutating: bool) -> OpRec {
        OpRec {
            seq: 0,
            t_ns: self.world.clock_ns,
            pid,
            host: self.procs[pid as usize].host.clone(),
            kind,
            path: String::new(),
            path2: String::new(),
            bytes: 0,
            mutating,
            ok: true,
            errno: 0,
            effect: false,
            injected: false,
            ino: 0,
        }
    }

    pub fn finish_rec(&mut self, mut rec: OpRec) {
        self.seq += 1;
        rec.seq = self.seq;
        // interleaving shape: (role, kind) sequence
        let role = &self.procs[rec.pid as usize].role;
        let mut h = self.shape;
        for b in role.bytes() {
            h = (h ^ u64::from(b)).wrapping_mul(0x100_0000_01B3);
        }
        h = (h ^ (rec.kind as u64)).wrapping_mul(0x100_0000_01B3);
        h = (h ^ u64::from(rec.ok)).wrapping_mul(0x100_0000_01B3);
        self.shape = h;
        // full-trace fingerprint (paths, byte counts, pids too) for the determinism self-test
        let mut f = self.trace_fp;
        for b in rec.path.bytes().chain(rec.path2.bytes()) {
            f = (f ^ u64::from(b)).wrapping_mul(0x100_0000_01B3);
        }
        for v in [rec.bytes, u64::from(rec.pid), rec.kind as u64, u64::from(rec.ok), rec.errno as u64, rec.t_ns] {
            f = (f ^ v).wrapping_mul(0x100_0000_01B3);
        }
        self.trace_fp = f;
        // clock
        let step = 1_000 + self.rng_io.below(2_000_000);
        self.world.clock_ns += step;
        if self.cfg.clock_jump_pct > 0 && self.rng_io.below(100) < u64::from(self.cfg.clock_jump_pct)
        {
            self.world.clock_ns += 1_000_000_000 + self.rng_io.below(3_000_000_000);
            self.stats.clock_jumps += 1;
        }
        let mut hooks = std::mem::take(&mut self.hooks);
        for h in &mut hooks {
            if let Err(m) = h(self, &rec) {
                if self.violations.len() < 8 {
                    self.violations.push((rec.seq, m));
                }
            }
        }
        self.hooks = hooks;
        if self.cfg.record_trace {
            self.trace.push(rec);
        }
    }

    fn live(&self) -> usize {
        self.procs
            .iter()
            .filter(|p| !matches!(p.status, Status::Exited(_)))
            .count()
    }

    fn abort_all(&mut self) {
        self.aborting = true;
        let pids: Vec<Pid> = self
            .procs
            .iter()
            .filter(|p| !matches!(p.status, Status::Exited(_)))
            .map(|p| p.pid)
            .collect();
        for pid in pids {
            if !self.procs[pid as usize].killed {
                self.procs[pid as usize].killed = true;
                self.release_proc(pid);
            }
            self.procs[pid as usize].baton = true;
            self.procs[pid as usize].cv.notify_all();
        }
    }

    /// Choose and execute one enabled op; hand the baton to its owner.
    /// Must be called with the caller parked (not holding the baton).
    pub fn schedule(&mut self, sh: &Shared) {
        if self.finished {
            return;
        }
        if self.aborting {
            if self.live() == 0 {
                self.finished = true;
                sh.done.notify_all();
            }
            return;
        }
        if self.stats.steps >= self.cfg.op_budget {
            self.budget_exceeded = true;
            self.abort_all();
            if self.live() == 0 {
                self.finished = true;
                sh.done.notify_all();
            }
            return;
        }
        let mut enabled: Vec<(Pid, usize, u64)> = Vec::new();
        let mut pending_total = 0usize;
        for p in &self.procs {
            if p.status != Status::Parked || p.killed {
                continue;
            }
            for (i, op) in p.pending.iter().enumerate() {
                pending_total += 1;
                if (op.enabled)(self) {
                    enabled.push((p.pid, i, op.id));
                } else {
                    match op.kind {
                        OpKind::PipeRead | OpKind::PipeWrite => {}
                        _ => {}
                    }
                }
            }
        }
        self.stats.max_pending = self.stats.max_pending.max(pending_total);
        if enabled.is_empty() {
            if self.live() == 0 {
                self.finished = true;
                sh.done.notify_all();
                return;
            }
            // live processes, nothing enabled, nobody running: deadlock
            self.deadlock = true;
            self.abort_all();
            return;
        }
        let choice = self.choose(&enabled);
        let (pid, idx, opid) = enabled[choice];
        self.decisions.push((pid, opid));
        if self.last_pid.is_some() && self.last_pid != Some(pid) {
            self.stats.switches += 1;
        }
        self.last_pid = Some(pid);
        self.stats.steps += 1;
        let op = self.procs[pid as usize].pending.remove(idx);
        let mut rec = self.blank_rec(pid, op.kind, op.mutating);
        let out = (op.exec)(self, &mut rec);
        self.finish_rec(rec);
        let p = &mut self.procs[pid as usize];
        if !op.detached {
            p.results.insert(op.id, out);
            if let Some(w) = op.waker {
                p.wake_list.push(w);
            }
        }
        p.baton = true;
        p.status = Status::Running;
        p.cv.notify_all();
    }

    fn choose(&mut self, enabled: &[(Pid, usize, u64)]) -> usize {
        match &self.cfg.policy {
            Policy::Sequential => 0,
            Policy::Uniform => self.rng_sched.usize_below(enabled.len()),
            Policy::Sticky { switch_pct } => {
                let sp = u64::from(*switch_pct);
                if let Some(lp) = self.last_pid {
                    let same: Vec<usize> = enabled
                        .iter()
                        .enumerate()
                        .filter(|(_, e)| e.0 == lp)
                        .map(|(i, _)| i)
                        .collect();
                    if !same.is_empty() && self.rng_sched.below(100) >= sp {
                        return same[self.rng_sched.usize_below(same.len())];
                    }
                }
                self.rng_sched.usize_below(enabled.len())
            }
            Policy::Pct { .. } => {
                let step = self.stats.steps;
                for e in enabled {
                    if !self.pct_prio.contains_key(&e.0) {
                        let v = 1_000 + self.rng_sched.below(1_000_000) as i64;
                        self.pct_prio.insert(e.0, v);
                    }
                }
                let mut best = 0usize;
                for (i, e) in enabled.iter().enumerate() {
                    if self.pct_prio[&e.0] > self.pct_prio[&enabled[best].0] {
                        best = i;
                    }
                }
                if self.pct_points.contains(&step) {
                    self.pct_low -= 1;
                    let low = self.pct_low;
                    self.pct_prio.insert(enabled[best].0, low);
                    // re-pick
                    best = 0;
                    for (i, e) in enabled.iter().enumerate() {
                        if self.pct_prio[&e.0] > self.pct_prio[&enabled[best].0] {
                            best = i;
                        }
                    }
                }
                // among ops of the chosen pid pick one at random (tokio tasks)
                let pid = enabled[best].0;
                let same: Vec<usize> = enabled
                    .iter()
                    .enumerate()
                    .filter(|(_, e)| e.0 == pid)
                    .map(|(i, _)| i)
                    .collect();
                same[self.rng_sched.usize_below(same.len())]
            }
            Policy::Replay(list) => {
                let want = list.get(self.replay_pos).copied();
                self.replay_pos += 1;
                if let Some((pid, opid)) = want {
                    if let Some(i) = enabled.iter().position(|e| e.0 == pid && e.2 == opid) {
                        return i;
                    }
                }
                self.replay_diverged = true;
                0
            }
        }
    }
}

pub fn lexical(cwd: &str, path: &str) -> String {
    let full = if path.starts_with('/') {
        path.to_string()
    } else {
        format!("{}/{}", cwd.trim_end_matches('/'), path)
    };
    let mut out: Vec<&str> = Vec::new();
    for c in full.split('/') {
        match c {
            "" | "." => {}
            ".." => {
                out.pop();
            }
            x => out.push(x),
        }
    }
    format!("/{}", out.join("/"))
}

// ------------------------------------------------------------------------------------
// entering the kernel from a simulated process
// ------------------------------------------------------------------------------------

/// What to do when the calling process is dead: panic `Killed` unless already unwinding.
fn die(mut st: MutexGuard<'_, State>, pid: Pid) -> Dead {
    if !st.procs[pid as usize].killed {
        st.kill_proc(pid);
    }
    drop(st);
    if std::thread::panicking() {
        Dead
    } else {
        std::panic::panic_any(Killed)
    }
}

fn is_dead(st: &State, pid: Pid) -> bool {
    st.procs[pid as usize].killed || ABORT_MSG.with(|m| m.borrow().is_some())
}

fn wait_baton<'a>(_sh: &'a Shared, mut st: MutexGuard<'a, State>, pid: Pid) -> MutexGuard<'a, State> {
    let cv = st.procs[pid as usize].cv.clone();
    while !st.procs[pid as usize].baton {
        st = match cv.wait(st) {
            Ok(g) => g,
            Err(p) => p.into_inner(),
        };
    }
    st.procs[pid as usize].baton = false;
    st
}

/// Blocking system call: publish the op, park, let the scheduler run, return the result.
pub fn syscall<T: Send + 'static>(
    kind: OpKind,
    mutating: bool,
    enabled: impl Fn(&State) -> bool + Send + Sync + 'static,
    exec: impl FnOnce(&mut State, &mut OpRec) -> T + Send + Sync + 'static,
) -> Result<T, Dead> {
    let _pause = crate::alloc::pause();
    let c = ctx();
    let sh = &*c.shared;
    let pid = c.pid;
    let mut st = lock(sh);
    if is_dead(&st, pid) {
        return Err(die(st, pid));
    }
    if st.note_submission(pid, kind, mutating) {
        return Err(die(st, pid));
    }
    let id = {
        let p = &mut st.procs[pid as usize];
        p.next_op += 1;
        p.next_op
    };
    st.procs[pid as usize].pending.push(PendingOp {
        id,
        kind,
        mutating,
        enabled: Box::new(enabled),
        exec: Box::new(move |s, r| Box::new(exec(s, r)) as Box<dyn Any + Send>),
        waker: None,
        is_async: false,
        detached: false,
    });
    loop {
        st.procs[pid as usize].status = Status::Parked;
        st.schedule(sh);
        st = wait_baton(sh, st, pid);
        if st.procs[pid as usize].killed {
            return Err(die(st, pid));
        }
        if let Some(out) = st.procs[pid as usize].results.remove(&id) {
            drop(st);
            bump_activity();
            return Ok(*out.downcast::<T>().expect("op result type"));
        }
        // an async op of this process completed while we were blocked: keep waiting
    }
}

/// Effect applied immediately at the caller's current instant (used from Drop impls,
/// where parking is not possible for async code). Recorded in the trace.
pub fn direct<T>(kind: OpKind, f: impl FnOnce(&mut State, &mut OpRec) -> T) -> Option<T> {
    let _pause = crate::alloc::pause();
    let c = try_ctx()?;
    let sh = &*c.shared;
    let mut st = lock(sh);
    if st.procs[c.pid as usize].killed || st.finished {
        return None;
    }
    let mut rec = st.blank_rec(c.pid, kind, false);
    let out = f(&mut st, &mut rec);
    st.finish_rec(rec);
    Some(out)
}

/// Read-only peek at the state (no scheduling point, not traced).
pub fn peek<T>(f: impl FnOnce(&mut State, Pid) -> T) -> T {
    let _pause = crate::alloc::pause();
    let c = ctx();
    let mut st = lock(&c.shared);
    f(&mut st, c.pid)
}

// ---- async ops -----------------------------------------------------------------------

pub enum AsyncOp<T> {
    New {
        kind: OpKind,
        mutating: bool,
        enabled: Option<EnabledFn>,
        exec: Option<Box<dyn FnOnce(&mut State, &mut OpRec) -> T + Send + Sync>>,
    },
    Registered {
        id: u64,
        pid: Pid,
        shared: Arc<Shared>,
    },
    Done,
}

impl<T: Send + 'static> AsyncOp<T> {
    pub fn new(
        kind: OpKind,
        mutating: bool,
        enabled: impl Fn(&State) -> bool + Send + Sync + 'static,
        exec: impl FnOnce(&mut State, &mut OpRec) -> T + Send + Sync + 'static,
    ) -> Self {
        AsyncOp::New {
            kind,
            mutating,
            enabled: Some(Box::new(enabled)),
            exec: Some(Box::new(exec)),
        }
    }

    pub fn poll_op(&mut self, cx: &mut std::task::Context<'_>) -> std::task::Poll<Result<T, Dead>> {
        use std::task::Poll;
        let _pause = crate::alloc::pause();
        match self {
            AsyncOp::New {
                kind,
                mutating,
                enabled,
                exec,
            } => {
                let c = ctx();
                let sh = c.shared.clone();
                let pid = c.pid;
                let mut st = lock(&sh);
                if is_dead(&st, pid) {
                    let d = die(st, pid);
                    *self = AsyncOp::Done;
                    return Poll::Ready(Err(d));
                }
                if st.note_submission(pid, *kind, *mutating) {
                    let d = die(st, pid);
                    *self = AsyncOp::Done;
                    return Poll::Ready(Err(d));
                }
                let id = {
                    let p = &mut st.procs[pid as usize];
                    p.next_op += 1;
                    p.next_op
                };
                let exec = exec.take().expect("exec");
                let enabled = enabled.take().expect("enabled");
                st.procs[pid as usize].pending.push(PendingOp {
                    id,
                    kind: *kind,
                    mutating: *mutating,
                    enabled,
                    exec: Box::new(move |s, r| Box::new(exec(s, r)) as Box<dyn Any + Send>),
                    waker: Some(cx.waker().clone()),
                    is_async: true,
                    detached: false,
                });
                drop(st);
                bump_activity();
                *self = AsyncOp::Registered {
                    id,
                    pid,
                    shared: sh,
                };
                Poll::Pending
            }
            AsyncOp::Registered { id, pid, shared } => {
                let mut st = lock(shared);
                if is_dead(&st, *pid) {
                    let pid = *pid;
                    let d = die(st, pid);
                    *self = AsyncOp::Done;
                    return Poll::Ready(Err(d));
                }
                if let Some(out) = st.procs[*pid as usize].results.remove(id) {
                    drop(st);
                    bump_activity();
                    *self = AsyncOp::Done;
                    return Poll::Ready(Ok(*out.downcast::<T>().expect("async op result type")));
                }
                let opid = *id;
                if let Some(op) = st.procs[*pid as usize]
                    .pending
                    .iter_mut()
                    .find(|o| o.id == opid)
                {
                    op.waker = Some(cx.waker().clone());
                }
                Poll::Pending
            }
            AsyncOp::Done => panic!("AsyncOp polled after completion"),
        }
    }
}

impl<T> AsyncOp<T> {
    /// Give up waiting without cancelling: the registered op stays pending and will still
    /// be executed. Returns (pid, op id) if the op is registered and not yet consumed.
    pub fn detach(&mut self) -> Option<(Arc<Shared>, Pid, u64)> {
        if let AsyncOp::Registered { id, pid, shared } = self {
            let r = (shared.clone(), *pid, *id);
            // replacing the value drops the Registered variant: tell Drop not to deregister
            DETACHING.with(|d| d.set(true));
            *self = AsyncOp::Done;
            DETACHING.with(|d| d.set(false));
            return Some(r);
        }
        None
    }
}

thread_local! { static DETACHING: Cell<bool> = const { Cell::new(false) }; }

/// A file handle was dropped while its last write is still in flight (tokio::fs::File does
/// not wait in Drop): keep the write pending, discard its result, and close the descriptor
/// only after it has been executed.
pub fn defer_close_after(sh: &Arc<Shared>, pid: Pid, write_id: u64, ofd: u64) {
    let mut st = lock(sh);
    if st.procs[pid as usize].killed {
        return;
    }
    let still_pending = {
        let p = &mut st.procs[pid as usize];
        let mut found = false;
        for o in p.pending.iter_mut() {
            if o.id == write_id {
                o.detached = true;
                o.waker = None;
                found = true;
            }
        }
        p.results.remove(&write_id);
        found
    };
    if !still_pending {
        let mut rec = st.blank_rec(pid, OpKind::Close, false);
        st.sys_close(pid, ofd, &mut rec);
        st.finish_rec(rec);
        return;
    }
    let id = {
        let p = &mut st.procs[pid as usize];
        p.next_op += 1;
        p.next_op
    };
    st.procs[pid as usize].pending.push(PendingOp {
        id,
        kind: OpKind::Close,
        mutating: false,
        enabled: Box::new(move |s: &State| !s.procs[pid as usize].pending.iter().any(|o| o.id == write_id)),
        exec: Box::new(move |s, r| {
            let p = r.pid;
            s.sys_close(p, ofd, r);
            Box::new(()) as Box<dyn Any + Send>
        }),
        waker: None,
        is_async: true,
        detached: true,
    });
}

impl<T> Drop for AsyncOp<T> {
    fn drop(&mut self) {
        if DETACHING.with(|d| d.get()) {
            return;
        }
        if let AsyncOp::Registered { id, pid, shared } = self {
            let mut st = lock(shared);
            let p = &mut st.procs[*pid as usize];
            p.pending.retain(|o| o.id != *id);
            p.results.remove(id);
        }
    }
}

impl<T: Send + 'static> std::future::Future for AsyncOp<T> {
    type Output = Result<T, Dead>;
    fn poll(
        self: std::pin::Pin<&mut Self>,
        cx: &mut std::task::Context<'_>,
    ) -> std::task::Poll<Self::Output> {
        // AsyncOp is Unpin (all fields are Unpin: boxes, ints, Arc)
        self.get_mut().poll_op(cx)
    }
}

impl<T> Unpin for AsyncOp<T> {}

/// Called by the tokio driver when the runtime is quiescent: park this process, let the
/// scheduler run, and when the baton comes back wake whatever completed.
pub fn park_async() -> Result<(), Dead> {
    let _pause = crate::alloc::pause();
    let c = ctx();
    let sh = &*c.shared;
    let pid = c.pid;
    let mut st = lock(sh);
    if is_dead(&st, pid) {
        return Err(die(st, pid));
    }
    st.procs[pid as usize].status = Status::Parked;
    st.schedule(sh);
    st = wait_baton(sh, st, pid);
    if st.procs[pid as usize].killed {
        return Err(die(st, pid));
    }
    let wakers = std::mem::take(&mut st.procs[pid as usize].wake_list);
    drop(st);
    for w in wakers {
        w.wake();
    }
    bump_activity();
    Ok(())
}

/// Deliver wake-ups for async ops that completed while this process was blocked in a
/// synchronous call.
pub fn deliver_wakes() {
    if let Some(c) = try_ctx() {
        let wakers = {
            let mut st = lock(&c.shared);
            std::mem::take(&mut st.procs[c.pid as usize].wake_list)
        };
        for w in wakers {
            w.wake();
        }
    }
}

// ------------------------------------------------------------------------------------
// process creation / exit
// ------------------------------------------------------------------------------------

pub struct SpawnSpec {
    pub role: String,
    pub host: String,
    pub argv: Vec<String>,
    pub env: BTreeMap<String, String>,
    pub cwd: String,
    pub stdio: [Fd; 3],
    pub ppid: Option<Pid>,
    pub program: ProgramFn,
}

/// Create the process entry and its (parked) thread. The stdio fds are acquired here.
pub fn create_proc(st: &mut State, sh: &Arc<Shared>, spec: SpawnSpec) -> Pid {
    let pid = st.procs.len() as Pid;
    for fd in spec.stdio {
        st.fd_acquire(fd);
    }
    let cv = Arc::new(Condvar::new());
    let mut p = Proc {
        pid,
        ppid: spec.ppid,
        role: spec.role,
        host: spec.host,
        argv: spec.argv,
        env: spec.env,
        cwd: spec.cwd,
        stdio: spec.stdio,
        status: Status::Parked,
        killed: false,
        baton: false,
        cv,
        pending: Vec::new(),
        results: BTreeMap::new(),
        wake_list: Vec::new(),
        next_op: 0,
        counts: [0; NCLASS],
        kind_counts: BTreeMap::new(),
        pipe_ends: Vec::new(),
        thread: None,
        cap_out: match spec.stdio[1] {
            Fd::Capture(i) => Some(i),
            _ => None,
        },
        cap_err: match spec.stdio[2] {
            Fd::Capture(i) => Some(i),
            _ => None,
        },
        alloc_peak: 0,
    };
    // the Start op: always enabled, no effect — makes process start a scheduling choice
    p.pending.push(PendingOp {
        id: 0,
        kind: OpKind::Start,
        mutating: false,
        enabled: Box::new(|_| true),
        exec: Box::new(|_, r| {
            r.ok = true;
            Box::new(()) as Box<dyn Any + Send>
        }),
        waker: None,
        is_async: false,
        detached: false,
    });
    let shared = sh.clone();
    let program = spec.program;
    let handle = std::thread::Builder::new()
        .name(format!("sim-{pid}"))
        .stack_size(4 << 20)
        .spawn(move || {
            CTX.with(|c| {
                *c.borrow_mut() = Some(Ctx {
                    shared: shared.clone(),
                    pid,
                });
            });
            // wait for the Start op to be scheduled
            let killed_before_start = {
                let st = lock(&shared);
                let mut st = wait_baton(&shared, st, pid);
                st.procs[pid as usize].results.remove(&0);
                st.procs[pid as usize].killed
            };
            let res = if killed_before_start {
                Err(Box::new(Killed) as Box<dyn Any + Send>)
            } else {
                crate::alloc::arm();
                std::panic::catch_unwind(std::panic::AssertUnwindSafe(program))
            };
            let abort = ABORT_MSG.with(|m| m.borrow_mut().take());
            let kind = match (res, abort) {
                (_, Some(msg)) => ExitKind::Aborted(msg),
                (Ok(code), None) => ExitKind::Code(code),
                (Err(p), None) => {
                    if p.is::<Killed>() {
                        ExitKind::Killed
                    } else {
                        ExitKind::Aborted("panic".into())
                    }
                }
            };
            proc_exit(&shared, pid, kind);
            CTX.with(|c| *c.borrow_mut() = None);
        })
        .expect("spawn sim thread");
    p.thread = Some(handle);
    st.procs.push(p);
    pid
}

pub fn proc_exit(sh: &Arc<Shared>, pid: Pid, kind: ExitKind) {
    let peak = crate::alloc::disarm();
    let mut st = lock(sh);
    st.procs[pid as usize].alloc_peak = peak;
    let was_killed = st.procs[pid as usize].killed;
    let kind = if was_killed && !matches!(kind, ExitKind::Aborted(_)) {
        ExitKind::Killed
    } else {
        kind
    };
    if !was_killed {
        // runtime shutdown waits for the blocking operations already started: execute what is
        // still detached-pending, in order
        loop {
            let idx = st.procs[pid as usize].pending.iter().position(|o| o.detached && (o.enabled)(&st));
            let Some(i) = idx else { break };
            let op = st.procs[pid as usize].pending.remove(i);
            let mut rec = st.blank_rec(pid, op.kind, op.mutating);
            let _ = (op.exec)(&mut st, &mut rec);
            st.finish_rec(rec);
        }
        let mut rec = st.blank_rec(pid, OpKind::Exit, false);
        rec.ok = true;
        st.release_proc(pid);
        st.finish_rec(rec);
    } else {
        st.release_proc(pid);
    }
    st.procs[pid as usize].status = Status::Exited(kind);
    st.schedule(sh);
}

// ------------------------------------------------------------------------------------
// the Sim handle used by the harness
// ------------------------------------------------------------------------------------

pub struct Sim {
    pub shared: Arc<Shared>,
}

#[derive(Clone, Debug)]
pub struct ProcSummary {
    pub pid: Pid,
    pub role: String,
    pub host: String,
    pub argv: Vec<String>,
    pub exit: ExitKind,
    pub stdout: Vec<u8>,
    pub stderr: Vec<u8>,
    pub counts: [u32; NCLASS],
    pub alloc_peak: usize,
}

impl ProcSummary {
    pub fn count(&self, c: OpClass) -> u32 {
        self.counts[class_idx(c)]
    }
    pub fn code(&self) -> Option<i32> {
        match self.exit {
            ExitKind::Code(c) => Some(c),
            _ => None,
        }
    }
    pub fn out_str(&self) -> String {
        String::from_utf8_lossy(&self.stdout).into_owned()
    }
    pub fn err_str(&self) -> String {
        String::from_utf8_lossy(&self.stderr).into_owned()
    }
}

pub struct Outcome {
    pub world: World,
    pub procs: Vec<ProcSummary>,
    pub trace: Vec<OpRec>,
    pub decisions: Vec<(Pid, u64)>,
    pub violations: Vec<(u64, String)>,
    pub deadlock: bool,
    pub budget_exceeded: bool,
    pub replay_diverged: bool,
    pub stats: Stats,
    pub shape: u64,
    pub trace_fp: u64,
    pub captures: Vec<Vec<u8>>,
}

impl Outcome {
    pub fn proc_by_role(&self, role: &str) -> Option<&ProcSummary> {
        self.procs.iter().find(|p| p.role == role)
    }
}

pub struct TopSpawn {
    pub role: String,
    pub host: String,
    pub argv: Vec<String>,
    pub env: BTreeMap<String, String>,
    pub cwd: String,
    pub stdin: Fd,
    /// None => capture
    pub stdout: Option<Fd>,
    pub stderr: Option<Fd>,
    /// None => resolve argv[0] through the resolver
    pub program: Option<ProgramFn>,
}

impl Sim {
    pub fn new(world: World, cfg: RunCfg, resolver: Resolver) -> Self {
        init();
        let mut st = State::new(world, cfg);
        st.resolver = Some(resolver);
        Self {
            shared: Arc::new(Shared {
                st: Mutex::new(st),
                done: Condvar::new(),
            }),
        }
    }

    pub fn on_step(&self, h: StepHook) {
        lock(&self.shared).hooks.push(h);
    }

    pub fn pipe(&self, cap: Option<usize>) -> usize {
        let mut st = lock(&self.shared);
        let c = cap.unwrap_or(st.cfg.pipe_cap);
        st.new_pipe(c)
    }

    pub fn spawn(&self, t: TopSpawn) -> Pid {
        let mut st = lock(&self.shared);
        let out = match t.stdout {
            Some(fd) => fd,
            None => Fd::Capture(st.new_capture()),
        };
        let errfd = match t.stderr {
            Some(fd) => fd,
            None => Fd::Capture(st.new_capture()),
        };
        let program = match t.program {
            Some(p) => p,
            None => {
                let req = SpawnReq {
                    host: t.host.clone(),
                    program: t.argv[0].clone(),
                    args: t.argv[1..].to_vec(),
                    env: t.env.clone(),
                    cwd: t.cwd.clone(),
                };
                let r = st.resolver.clone().expect("resolver");
                r(&req).unwrap_or_else(|| panic!("no program for {:?}", t.argv))
            }
        };
        create_proc(
            &mut st,
            &self.shared,
            SpawnSpec {
                role: t.role,
                host: t.host,
                argv: t.argv,
                env: t.env,
                cwd: t.cwd,
                stdio: [t.stdin, out, errfd],
                ppid: None,
                program,
            },
        )
    }

    pub fn run(self) -> Outcome {
        {
            let mut st = lock(&self.shared);
            st.schedule(&self.shared);
            while !st.finished {
                st = match self.shared.done.wait(st) {
                    Ok(g) => g,
                    Err(p) => p.into_inner(),
                };
            }
        }
        // join threads
        let handles: Vec<_> = {
            let mut st = lock(&self.shared);
            st.procs.iter_mut().filter_map(|p| p.thread.take()).collect()
        };
        for h in handles {
            let _ = h.join();
        }
        let mut st = lock(&self.shared);
        let caps = std::mem::take(&mut st.captures);
        let procs = st
            .procs
            .iter()
            .map(|p| ProcSummary {
                pid: p.pid,
                role: p.role.clone(),
                host: p.host.clone(),
                argv: p.argv.clone(),
                exit: match &p.status {
                    Status::Exited(k) => k.clone(),
                    _ => ExitKind::Killed,
                },
                stdout: Vec::new(),
                stderr: Vec::new(),
                counts: p.counts,
                alloc_peak: p.alloc_peak,
            })
            .collect::<Vec<_>>();
        let mut out = Outcome {
            world: std::mem::take(&mut st.world),
            procs,
            trace: std::mem::take(&mut st.trace),
            decisions: std::mem::take(&mut st.decisions),
            violations: std::mem::take(&mut st.violations),
            deadlock: st.deadlock,
            budget_exceeded: st.budget_exceeded,
            replay_diverged: st.replay_diverged,
            stats: st.stats.clone(),
            shape: st.shape,
            trace_fp: st.trace_fp,
            captures: caps,
        };
        // attach captured output
        for (i, p) in st.procs.iter().enumerate() {
            if let Some(o) = p.cap_out {
                out.procs[i].stdout = out.captures[o].clone();
            }
            if let Some(e) = p.cap_err {
                out.procs[i].stderr = out.captures[e].clone();
            }
        }
        st.hooks.clear();
        TRACE_DUMP.with(|t| {
            if let Some(v) = t.borrow_mut().as_mut() {
                if v.len() < 4000 {
                    v.push(format!("--- simulation: policy {:?}, seed {}, faults {:?}", st.cfg.policy, st.cfg.seed, st.cfg.faults));
                    for r in out.trace.iter().take(1500) {
                        let role = out.procs.get(r.pid as usize).map_or("?", |p| p.role.as_str());
                        let mut line = format!("{:>5} {:<14} {:?} {}", r.seq, role, r.kind, r.path.replace('\n', "\\n"));
                        if !r.path2.is_empty() {
                            line.push_str(&format!(" -> {}", r.path2.replace('\n', "\\n")));
                        }
                        if r.bytes > 0 {
                            line.push_str(&format!(" [{}]", r.bytes));
                        }
                        if !r.ok {
                            line.push_str(&format!(" = errno {}", r.errno));
                        }
                        if r.injected {
                            line.push_str(" (INJECTED FAULT)");
                        }
                        if r.kind == OpKind::KillMark {
                            line.push_str(" (PROCESS KILLED HERE)");
                        }
                        v.push(line);
                    }
                    if out.trace.len() > 1500 {
                        v.push(format!("... {} more steps", out.trace.len() - 1500));
                    }
                }
            }
        });
        mix_run_fp(out.trace_fp);
        mix_run_fp(out.stats.steps);
        if RUN_FP_DEEP.with(|d| d.get()) {
            // outputs and the complete final world (bytes and mtimes of every file on every host)
            for c in &out.captures {
                for b in c {
                    mix_run_fp(u64::from(*b));
                }
            }
            for p in &out.procs {
                mix_run_fp(match &p.exit {
                    ExitKind::Code(c) => *c as u64,
                    ExitKind::Aborted(_) => 1000,
                    ExitKind::Killed => 1001,
                });
            }
            for (h, fsys) in &out.world.hosts {
                for b in h.bytes() {
                    mix_run_fp(u64::from(b));
                }
                for (path, (bytes, mt)) in fsys.tree("/") {
                    for b in path.bytes() {
                        mix_run_fp(u64::from(b));
                    }
                    mix_run_fp(bytes.len() as u64);
                    for b in blake3_lite(&bytes) {
                        mix_run_fp(b);
                    }
                    mix_run_fp(mt);
                }
            }
        }
        out
    }
}


/// cheap content digest for the self-test fingerprint (no crypto needed)
fn blake3_lite(b: &[u8]) -> [u64; 2] {
    let mut h1 = 0xcbf2_9ce4_8422_2325u64;
    let mut h2 = 0x8422_2325_cbf2_9ce4u64;
    for x in b {
        h1 = (h1 ^ u64::from(*x)).wrapping_mul(0x100_0000_01B3);
        h2 = (h2.rotate_left(5) ^ u64::from(*x)).wrapping_mul(0x9E37_79B9_7F4A_7C15);
    }
    [h1, h2]
}


/// Set when simulated code reaches an API the simulated world does not model (a real thread, a
/// real timer, a shell construct the stand-in cannot run). A check that finds this set reports a
/// harness error: whatever the run showed is not a verdict about the code.
pub static UNSUPPORTED: std::sync::Mutex<Option<String>> = std::sync::Mutex::new(None);

pub fn note_unsupported(what: &str) {
    if let Ok(mut g) = UNSUPPORTED.lock() {
        if g.is_none() {
            *g = Some(what.to_string());
        }
    }
}

pub fn take_unsupported() -> Option<String> {
    UNSUPPORTED.lock().ok().and_then(|mut g| g.take())
}
