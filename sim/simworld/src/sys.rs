//! The simulated system-call layer: every shim entry point ends in one of these,
//! executed atomically by the scheduler.

use crate::fs::{err, Kind, Meta, OpenFlags, EBADF, EPIPE};
use crate::kernel::*;
use std::collections::BTreeMap;
use std::io;
use std::sync::Arc;

fn note(rec: &mut OpRec, r: &io::Result<impl Sized>) {
    match r {
        Ok(_) => {
            rec.ok = true;
        }
        Err(e) => {
            rec.ok = false;
            rec.errno = e.raw_os_error().unwrap_or(-1);
            rec.effect = false;
        }
    }
}

#[derive(Clone, Copy, Debug)]
pub enum StdioCfg {
    Inherit,
    Null,
    Piped,
}

pub struct ChildInfo {
    pub pid: Pid,
    pub stdin: Option<usize>,
    pub stdout: Option<usize>,
    pub stderr: Option<usize>,
}

impl State {
    fn host_of(&self, pid: Pid) -> (String, String) {
        let p = &self.procs[pid as usize];
        (p.host.clone(), p.cwd.clone())
    }

    pub fn sys_stat(
        &mut self,
        pid: Pid,
        path: &str,
        follow: bool,
        rec: &mut OpRec,
    ) -> io::Result<Meta> {
        rec.path = self.abs(pid, path);
        if let Some(e) = self.inject(pid, OpKind::Stat, rec) {
            return Err(e);
        }
        let (h, cwd) = self.host_of(pid);
        let r = self.fs(&h).stat(&cwd, path, follow);
        note(rec, &r);
        r
    }

    pub fn sys_open(
        &mut self,
        pid: Pid,
        path: &str,
        fl: OpenFlags,
        rec: &mut OpRec,
    ) -> io::Result<u64> {
        rec.path = self.abs(pid, path);
        if let Some(e) = self.inject(pid, OpKind::Open, rec) {
            return Err(e);
        }
        let (h, cwd) = self.host_of(pid);
        let now = self.now();
        let existed_len = self
            .fs(&h)
            .stat(&cwd, path, true)
            .ok()
            .map(|m| (m.kind, m.len));
        let r = self.fs(&h).open(&cwd, path, fl, now);
        note(rec, &r);
        let (ino, created) = r?;
        rec.ino = ino;
        rec.effect = created
            || (fl.truncate
                && fl.write
                && matches!(existed_len, Some((Kind::File, l)) if l > 0));
        let id = self.alloc_ofd(Ofd {
            pid,
            host: h,
            ino,
            read: fl.read,
            write: fl.write || fl.append,
            append: fl.append,
            path: rec.path.clone(),
        });
        Ok(id)
    }

    fn alloc_ofd(&mut self, o: Ofd) -> u64 {
        let id = self.ofds.keys().next_back().copied().unwrap_or(0) + 1;
        self.ofds.insert(id, o);
        id
    }

    pub fn sys_read(
        &mut self,
        pid: Pid,
        ofd: u64,
        pos: u64,
        len: usize,
        rec: &mut OpRec,
    ) -> io::Result<Vec<u8>> {
        let Some(o) = self.ofds.get(&ofd) else {
            rec.ok = false;
            rec.errno = EBADF;
            return Err(err(EBADF));
        };
        rec.path = o.path.clone();
        rec.ino = o.ino;
        let (h, ino, can) = (o.host.clone(), o.ino, o.read);
        if let Some(e) = self.inject(pid, OpKind::Read, rec) {
            return Err(e);
        }
        if !can {
            rec.ok = false;
            rec.errno = EBADF;
            return Err(err(EBADF));
        }
        let mut want = len;
        if want > 1 && self.cfg.short_read_pct > 0 {
            if self.rng_io.below(100) < u64::from(self.cfg.short_read_pct) {
                want = 1 + self.rng_io.usize_below(want);
                self.stats.short_reads += 1;
            }
        }
        let r = self.fs(&h).read_at(ino, pos, want);
        note(rec, &r);
        if let Ok(d) = &r {
            rec.bytes = d.len() as u64;
        }
        r
    }

    /// `pos == None` => append
    pub fn sys_write(
        &mut self,
        pid: Pid,
        ofd: u64,
        pos: Option<u64>,
        data: &[u8],
        rec: &mut OpRec,
    ) -> io::Result<(usize, u64)> {
        let Some(o) = self.ofds.get(&ofd) else {
            rec.ok = false;
            rec.errno = EBADF;
            return Err(err(EBADF));
        };
        rec.path = o.path.clone();
        rec.ino = o.ino;
        let (h, ino, can, app) = (o.host.clone(), o.ino, o.write, o.append);
        if let Some(e) = self.inject(pid, OpKind::Write, rec) {
            return Err(e);
        }
        if !can {
            rec.ok = false;
            rec.errno = EBADF;
            return Err(err(EBADF));
        }
        let now = self.now();
        let at = if app || pos.is_none() {
            self.fs(&h).file_len(ino)
        } else {
            pos.unwrap_or(0)
        };
        let mut data = data;
        if data.len() > 1 && self.short_write_now(pid) {
            data = &data[..(data.len() / 2).max(1)];
            self.stats.short_writes += 1;
            rec.injected = true;
        }
        let r = self.fs(&h).write_at(ino, at, data, now);
        note(rec, &r);
        rec.bytes = data.len() as u64;
        rec.effect = r.is_ok() && !data.is_empty();
        r.map(|n| (n, at + n as u64))
    }

    pub fn sys_fsync(&mut self, pid: Pid, ofd: u64, rec: &mut OpRec) -> io::Result<()> {
        let Some(o) = self.ofds.get(&ofd) else {
            rec.ok = false;
            rec.errno = EBADF;
            return Err(err(EBADF));
        };
        rec.path = o.path.clone();
        rec.ino = o.ino;
        let (h, ino) = (o.host.clone(), o.ino);
        if let Some(e) = self.inject(pid, OpKind::Fsync, rec) {
            return Err(e);
        }
        self.fs(&h).fsync(ino);
        rec.ok = true;
        Ok(())
    }

    pub fn sys_fstat(&mut self, _pid: Pid, ofd: u64, rec: &mut OpRec) -> io::Result<Meta> {
        let Some(o) = self.ofds.get(&ofd) else {
            rec.ok = false;
            rec.errno = EBADF;
            return Err(err(EBADF));
        };
        rec.path = o.path.clone();
        rec.ino = o.ino;
        let (h, ino) = (o.host.clone(), o.ino);
        rec.ok = true;
        Ok(self.fs(&h).meta_of(ino))
    }

    pub fn sys_set_mtime(&mut self, pid: Pid, ofd: u64, ns: u64, rec: &mut OpRec) -> io::Result<()> {
        let Some(o) = self.ofds.get(&ofd) else {
            rec.ok = false;
            rec.errno = EBADF;
            return Err(err(EBADF));
        };
        rec.path = o.path.clone();
        rec.ino = o.ino;
        let (h, ino) = (o.host.clone(), o.ino);
        if let Some(e) = self.inject(pid, OpKind::SetMtime, rec) {
            return Err(e);
        }
        let old = self.fs(&h).meta_of(ino).mtime_ns;
        self.fs(&h).set_mtime(ino, ns);
        rec.ok = true;
        rec.effect = old != ns;
        rec.bytes = ns / 1_000_000_000;
        Ok(())
    }

    pub fn sys_set_len(&mut self, pid: Pid, ofd: u64, len: u64, rec: &mut OpRec) -> io::Result<()> {
        let Some(o) = self.ofds.get(&ofd) else {
            rec.ok = false;
            rec.errno = EBADF;
            return Err(err(EBADF));
        };
        rec.path = o.path.clone();
        rec.ino = o.ino;
        let (h, ino) = (o.host.clone(), o.ino);
        if let Some(e) = self.inject(pid, OpKind::SetLen, rec) {
            return Err(e);
        }
        let now = self.now();
        let r = self.fs(&h).set_len(ino, len, now);
        note(rec, &r);
        rec.effect = r.is_ok();
        r
    }

    pub fn sys_close(&mut self, _pid: Pid, ofd: u64, rec: &mut OpRec) {
        if let Some(o) = self.ofds.get(&ofd) {
            rec.path = o.path.clone();
            rec.ino = o.ino;
        }
        self.close_ofd(ofd);
        rec.ok = true;
    }

    pub fn sys_rename(&mut self, pid: Pid, from: &str, to: &str, rec: &mut OpRec) -> io::Result<()> {
        rec.path = self.abs(pid, from);
        rec.path2 = self.abs(pid, to);
        if let Some(e) = self.inject(pid, OpKind::Rename, rec) {
            return Err(e);
        }
        let (h, cwd) = self.host_of(pid);
        let now = self.now();
        let r = self.fs(&h).rename(&cwd, from, to, now);
        note(rec, &r);
        if let Ok((ino, _)) = &r {
            rec.ino = *ino;
            rec.effect = true;
        }
        r.map(|_| ())
    }

    pub fn sys_link(&mut self, pid: Pid, from: &str, to: &str, rec: &mut OpRec) -> io::Result<()> {
        rec.path = self.abs(pid, from);
        rec.path2 = self.abs(pid, to);
        if let Some(e) = self.inject(pid, OpKind::Link, rec) {
            return Err(e);
        }
        let (h, cwd) = self.host_of(pid);
        let now = self.now();
        let r = self.fs(&h).link(&cwd, from, to, now);
        note(rec, &r);
        if let Ok(ino) = &r {
            rec.ino = *ino;
            rec.effect = true;
        }
        r.map(|_| ())
    }

    pub fn sys_unlink(&mut self, pid: Pid, path: &str, rec: &mut OpRec) -> io::Result<()> {
        rec.path = self.abs(pid, path);
        if let Some(e) = self.inject(pid, OpKind::Unlink, rec) {
            return Err(e);
        }
        let (h, cwd) = self.host_of(pid);
        let now = self.now();
        let r = self.fs(&h).unlink(&cwd, path, now);
        note(rec, &r);
        if let Ok(ino) = &r {
            rec.ino = *ino;
            rec.effect = true;
        }
        r.map(|_| ())
    }

    pub fn sys_mkdir(&mut self, pid: Pid, path: &str, rec: &mut OpRec) -> io::Result<()> {
        rec.path = self.abs(pid, path);
        if let Some(e) = self.inject(pid, OpKind::Mkdir, rec) {
            return Err(e);
        }
        let (h, cwd) = self.host_of(pid);
        let now = self.now();
        let r = self.fs(&h).mkdir(&cwd, path, now);
        note(rec, &r);
        rec.effect = r.is_ok();
        r
    }

    pub fn sys_rmdir(&mut self, pid: Pid, path: &str, rec: &mut OpRec) -> io::Result<()> {
        rec.path = self.abs(pid, path);
        if let Some(e) = self.inject(pid, OpKind::Rmdir, rec) {
            return Err(e);
        }
        let (h, cwd) = self.host_of(pid);
        let now = self.now();
        let r = self.fs(&h).rmdir(&cwd, path, now);
        note(rec, &r);
        rec.effect = r.is_ok();
        r
    }

    pub fn sys_readdir(
        &mut self,
        pid: Pid,
        path: &str,
        rec: &mut OpRec,
    ) -> io::Result<Vec<(String, Kind)>> {
        rec.path = self.abs(pid, path);
        if let Some(e) = self.inject(pid, OpKind::Readdir, rec) {
            return Err(e);
        }
        let (h, cwd) = self.host_of(pid);
        let r = self.fs(&h).readdir(&cwd, path);
        note(rec, &r);
        let list = r?;
        let fsys = self.fs(&h);
        let mut v: Vec<(String, Kind)> = list
            .into_iter()
            .map(|(n, i)| {
                let k = fsys.kind_of(i);
                (n, k)
            })
            .collect();
        if let Some(seed) = self.cfg.readdir_seed {
            v.sort_by_key(|(n, _)| crate::rng::derive(seed, n, 0));
        }
        Ok(v)
    }

    pub fn sys_readlink(&mut self, pid: Pid, path: &str, rec: &mut OpRec) -> io::Result<String> {
        rec.path = self.abs(pid, path);
        let (h, cwd) = self.host_of(pid);
        let r = self.fs(&h).readlink(&cwd, path);
        note(rec, &r);
        r
    }

    pub fn sys_canon(&mut self, pid: Pid, path: &str, rec: &mut OpRec) -> io::Result<String> {
        rec.path = self.abs(pid, path);
        let (h, cwd) = self.host_of(pid);
        let r = self.fs(&h).canonicalize(&cwd, path);
        note(rec, &r);
        r
    }

    // ---- flock -----------------------------------------------------------------------

    /// May `ofd` take the flock on its file now (`shared` or exclusive)? flock semantics: any number
    /// of shared holders, or one exclusive holder; a holder may convert its own lock when nobody
    /// else holds the file.
    pub fn lock_enabled_mode(&self, ofd: u64, shared: bool) -> bool {
        let Some(o) = self.ofds.get(&ofd) else { return true };
        match self.locks.get(&(o.host.clone(), o.ino)) {
            None => true,
            Some((held_shared, holders)) => {
                let others = holders.iter().any(|h| *h != ofd);
                if !others {
                    true
                } else {
                    shared && *held_shared
                }
            }
        }
    }

    pub fn lock_enabled(&self, ofd: u64) -> bool {
        self.lock_enabled_mode(ofd, false)
    }

    pub fn lock_release(&mut self, key: &(String, crate::fs::Ino), ofd: u64) {
        if let Some((_, holders)) = self.locks.get_mut(key) {
            holders.retain(|h| *h != ofd);
            if holders.is_empty() {
                self.locks.remove(key);
            }
        }
    }

    pub fn sys_lock_mode(&mut self, pid: Pid, ofd: u64, shared: bool, rec: &mut OpRec) -> io::Result<()> {
        let Some(o) = self.ofds.get(&ofd) else {
            rec.ok = false;
            rec.errno = EBADF;
            return Err(err(EBADF));
        };
        rec.path = o.path.clone();
        rec.ino = o.ino;
        let key = (o.host.clone(), o.ino);
        if let Some(e) = self.inject(pid, OpKind::Lock, rec) {
            return Err(e);
        }
        let e = self.locks.entry(key).or_insert((shared, Vec::new()));
        if !e.1.contains(&ofd) {
            e.1.push(ofd);
        }
        // (enabledness guaranteed that no other holder conflicts; a sole holder converts)
        if e.1.len() == 1 {
            e.0 = shared;
        }
        rec.ok = true;
        rec.bytes = u64::from(shared);
        Ok(())
    }

    pub fn sys_lock(&mut self, pid: Pid, ofd: u64, rec: &mut OpRec) -> io::Result<()> {
        self.sys_lock_mode(pid, ofd, false, rec)
    }

    pub fn sys_unlock(&mut self, _pid: Pid, ofd: u64, rec: &mut OpRec) -> io::Result<()> {
        let Some(o) = self.ofds.get(&ofd) else {
            rec.ok = false;
            rec.errno = EBADF;
            return Err(err(EBADF));
        };
        rec.path = o.path.clone();
        rec.ino = o.ino;
        let key = (o.host.clone(), o.ino);
        self.lock_release(&key, ofd);
        rec.ok = true;
        Ok(())
    }

    // ---- pipes -----------------------------------------------------------------------

    pub fn pipe_read_enabled(&self, id: usize) -> bool {
        let p = &self.pipes[id];
        !p.buf.is_empty() || p.writers == 0
    }

    pub fn sys_pipe_read(
        &mut self,
        pid: Pid,
        id: usize,
        max: usize,
        rec: &mut OpRec,
    ) -> io::Result<Vec<u8>> {
        rec.path = format!("pipe:{id}");
        if let Some(e) = self.inject(pid, OpKind::PipeRead, rec) {
            return Err(e);
        }
        let avail = self.pipes[id].buf.len().min(max);
        let mut n = avail;
        if n > 1 && self.cfg.short_read_pct > 0 {
            if self.rng_io.below(100) < u64::from(self.cfg.short_read_pct) {
                n = 1 + self.rng_io.usize_below(n);
                self.stats.short_reads += 1;
            }
        }
        let out: Vec<u8> = self.pipes[id].buf.drain(..n).collect();
        rec.ok = true;
        rec.bytes = out.len() as u64;
        Ok(out)
    }

    pub fn pipe_write_enabled(&self, id: usize) -> bool {
        let p = &self.pipes[id];
        p.readers == 0 || p.buf.len() < p.cap
    }

    pub fn sys_pipe_write(
        &mut self,
        pid: Pid,
        id: usize,
        data: &[u8],
        rec: &mut OpRec,
    ) -> io::Result<usize> {
        rec.path = format!("pipe:{id}");
        if let Some(e) = self.inject(pid, OpKind::PipeWrite, rec) {
            return Err(e);
        }
        if self.pipes[id].readers == 0 {
            rec.ok = false;
            rec.errno = EPIPE;
            return Err(err(EPIPE));
        }
        let space = self.pipes[id].cap - self.pipes[id].buf.len().min(self.pipes[id].cap);
        let n = space.min(data.len());
        self.pipes[id].buf.extend(&data[..n]);
        self.pipes[id].total += n as u64;
        rec.ok = true;
        rec.bytes = n as u64;
        Ok(n)
    }

    pub fn sys_pipe_close(&mut self, pid: Pid, id: usize, write: bool, rec: &mut OpRec) {
        rec.path = format!("pipe:{id}");
        let ends = &mut self.procs[pid as usize].pipe_ends;
        if let Some(i) = ends.iter().position(|e| *e == (id, write)) {
            ends.remove(i);
            if write {
                self.pipes[id].writers = self.pipes[id].writers.saturating_sub(1);
            } else {
                self.pipes[id].readers = self.pipes[id].readers.saturating_sub(1);
            }
        }
        rec.ok = true;
    }

    /// Non-blocking write to one of the caller's stdio fds (println!/eprintln!).
    pub fn fd_write(&mut self, pid: Pid, idx: usize, data: &[u8]) {
        match self.procs[pid as usize].stdio[idx] {
            Fd::Null => {}
            Fd::Capture(i) => self.captures[i].extend_from_slice(data),
            Fd::Pipe { id, write: true } => {
                if self.pipes[id].readers > 0 {
                    self.pipes[id].buf.extend(data);
                }
            }
            Fd::Pipe { .. } => {}
        }
    }

    // ---- processes -------------------------------------------------------------------

    #[allow(clippy::too_many_arguments)]
    pub fn sys_spawn(
        &mut self,
        sh: &Arc<Shared>,
        pid: Pid,
        program: &str,
        args: &[String],
        extra_env: &BTreeMap<String, String>,
        stdio: [StdioCfg; 3],
        rec: &mut OpRec,
    ) -> io::Result<ChildInfo> {
        rec.path = program.to_string();
        if let Some(e) = self.inject(pid, OpKind::Spawn, rec) {
            return Err(e);
        }
        let parent = &self.procs[pid as usize];
        let mut env = parent.env.clone();
        for (k, v) in extra_env {
            env.insert(k.clone(), v.clone());
        }
        let req = SpawnReq {
            host: parent.host.clone(),
            program: program.to_string(),
            args: args.to_vec(),
            env: env.clone(),
            cwd: parent.cwd.clone(),
        };
        let role = format!(
            "{}>{}",
            parent.role,
            program.rsplit('/').next().unwrap_or(program)
        );
        let pstdio = parent.stdio;
        let resolver = self.resolver.clone().expect("resolver");
        let Some(prog) = resolver(&req) else {
            rec.ok = false;
            rec.errno = crate::fs::ENOENT;
            return Err(err(crate::fs::ENOENT));
        };
        let cap = self.cfg.pipe_cap;
        let mut child_fds = [Fd::Null; 3];
        let mut parent_pipes: [Option<usize>; 3] = [None; 3];
        for i in 0..3 {
            match stdio[i] {
                StdioCfg::Null => child_fds[i] = Fd::Null,
                StdioCfg::Inherit => child_fds[i] = pstdio[i],
                StdioCfg::Piped => {
                    // the stderr pipe keeps a realistic capacity: diagnostics are small, and a
                    // parent that reads stderr only after feeding stdin is not wedged by them
                    let id = self.new_pipe(if i == 2 { cap.max(65536) } else { cap });
                    // child end
                    child_fds[i] = Fd::Pipe { id, write: i != 0 };
                    // parent end
                    let pw = i == 0;
                    if pw {
                        self.pipes[id].writers += 1;
                    } else {
                        self.pipes[id].readers += 1;
                    }
                    self.procs[pid as usize].pipe_ends.push((id, pw));
                    parent_pipes[i] = Some(id);
                }
            }
        }
        let mut argv = vec![program.to_string()];
        argv.extend(args.iter().cloned());
        let child = create_proc(
            self,
            sh,
            SpawnSpec {
                role,
                host: req.host.clone(),
                argv,
                env,
                cwd: req.cwd.clone(),
                stdio: child_fds,
                ppid: Some(pid),
                program: prog,
            },
        );
        rec.ok = true;
        rec.bytes = u64::from(child);
        Ok(ChildInfo {
            pid: child,
            stdin: parent_pipes[0],
            stdout: parent_pipes[1],
            stderr: parent_pipes[2],
        })
    }

    pub fn wait_enabled(&self, child: Pid) -> bool {
        matches!(self.procs[child as usize].status, Status::Exited(_))
    }

    pub fn sys_wait(&mut self, child: Pid, rec: &mut OpRec) -> ExitKind {
        rec.ok = true;
        rec.bytes = u64::from(child);
        match &self.procs[child as usize].status {
            Status::Exited(k) => k.clone(),
            _ => ExitKind::Killed,
        }
    }
}
