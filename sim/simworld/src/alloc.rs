//! Allocation monitor: a counting global allocator with per-thread accounting of the
//! largest single request. Stands in for `ulimit -v`: a request above the configured
//! limit is what would abort the shipped binary.

use std::alloc::{GlobalAlloc, Layout, System};
use std::cell::Cell;

thread_local! {
    static MAX_REQ: Cell<usize> = const { Cell::new(0) };
    static ARMED: Cell<bool> = const { Cell::new(false) };
}

pub struct Monitor;

// SAFETY: defers to the system allocator; only adds thread-local counters that are
// const-initialised (no allocation, no lazy init).
unsafe impl GlobalAlloc for Monitor {
    unsafe fn alloc(&self, l: Layout) -> *mut u8 {
        note(l.size());
        System.alloc(l)
    }
    unsafe fn alloc_zeroed(&self, l: Layout) -> *mut u8 {
        note(l.size());
        System.alloc_zeroed(l)
    }
    unsafe fn dealloc(&self, p: *mut u8, l: Layout) {
        System.dealloc(p, l)
    }
    unsafe fn realloc(&self, p: *mut u8, l: Layout, new: usize) -> *mut u8 {
        note(new);
        System.realloc(p, l, new)
    }
}

#[inline]
fn note(sz: usize) {
    let _ = ARMED.try_with(|a| {
        if a.get() {
            let _ = MAX_REQ.try_with(|m| {
                if sz > m.get() {
                    m.set(sz);
                }
            });
        }
    });
}

/// Start measuring on this thread (resets the high-water mark).
pub fn arm() {
    MAX_REQ.with(|m| m.set(0));
    ARMED.with(|a| a.set(true));
}

/// Stop measuring; returns the largest single request since `arm`.
pub fn disarm() -> usize {
    ARMED.with(|a| a.set(false));
    MAX_REQ.with(|m| m.get())
}

pub fn peak() -> usize {
    MAX_REQ.with(|m| m.get())
}

/// RAII pause of the monitor (kernel-internal work on a simulated process's thread must
/// not be attributed to that process).
pub struct Paused(bool);

pub fn pause() -> Paused {
    let was = ARMED.with(|a| a.replace(false));
    Paused(was)
}

impl Drop for Paused {
    fn drop(&mut self) {
        let was = self.0;
        let _ = ARMED.try_with(|a| a.set(was));
    }
}
