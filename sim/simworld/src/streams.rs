//! Stream seams for the library-level harnesses: readers and writers whose every call is
//! decided by a seeded plan — how many bytes a read returns, `Interrupted`, `Pending`,
//! short writes, a hard error or EOF at byte n, flipped bytes.

use crate::rng::Rng;
use std::io::{self, Read, Seek, SeekFrom, Write};
use std::pin::Pin;
use std::task::{Context, Poll};
use tokio::io::{AsyncRead, AsyncSeek, AsyncWrite, ReadBuf};

#[derive(Clone, Debug)]
pub struct IoPlan {
    pub seed: u64,
    /// upper bound for bytes returned by one read / accepted by one write (0 = unlimited)
    pub max_chunk: usize,
    /// percent of calls that deliver exactly 1 byte
    pub one_byte_pct: u32,
    /// percent of sync calls failing with ErrorKind::Interrupted (must be retried by callers)
    pub eintr_pct: u32,
    /// percent of async polls answering Pending (with an immediate wake)
    pub pending_pct: u32,
    /// hard error once the stream position reaches this byte
    pub fail_at: Option<u64>,
    /// stream ends (EOF) at this byte although more data exists
    pub eof_at: Option<u64>,
}

impl IoPlan {
    pub fn benign_none() -> Self {
        Self {
            seed: 0,
            max_chunk: 0,
            one_byte_pct: 0,
            eintr_pct: 0,
            pending_pct: 0,
            fail_at: None,
            eof_at: None,
        }
    }
    pub fn random(rng: &mut Rng) -> Self {
        let chunks = [1usize, 2, 3, 7, 64, 511, 512, 513, 4096, 65536, 0];
        Self {
            seed: rng.next_u64(),
            max_chunk: *rng.pick(&chunks),
            one_byte_pct: *rng.pick(&[0u32, 0, 5, 30]),
            eintr_pct: *rng.pick(&[0u32, 0, 3, 20]),
            pending_pct: *rng.pick(&[0u32, 0, 10, 50]),
            fail_at: None,
            eof_at: None,
        }
    }
}

#[derive(Clone, Debug, Default)]
pub struct IoStats {
    pub calls: u64,
    pub short: u64,
    pub eintr: u64,
    pub pending: u64,
    pub failed: u64,
    pub seeks: u64,
}

pub struct SimRead {
    pub data: Vec<u8>,
    pub pos: u64,
    rng: Rng,
    pub plan: IoPlan,
    pub stats: IoStats,
    /// every (offset, len) served — "no read outside the basis" oracle
    pub served: Vec<(u64, usize)>,
    pub max_offset_requested: u64,
    eof_reads: u64,
}

impl SimRead {
    pub fn new(data: Vec<u8>, plan: IoPlan) -> Self {
        Self {
            data,
            pos: 0,
            rng: Rng::new(plan.seed ^ 0x5EED_0001),
            plan,
            stats: IoStats::default(),
            served: Vec::new(),
            max_offset_requested: 0,
            eof_reads: 0,
        }
    }

    fn effective_len(&self) -> u64 {
        let l = self.data.len() as u64;
        match self.plan.eof_at {
            Some(e) => l.min(e),
            None => l,
        }
    }

    /// Decide one read of up to `want` bytes. Ok(n) may be 0 only at EOF.
    fn decide(&mut self, want: usize) -> io::Result<usize> {
        self.stats.calls += 1;
        if let Some(f) = self.plan.fail_at {
            if self.pos >= f {
                self.stats.failed += 1;
                return Err(io::Error::new(io::ErrorKind::Other, "injected read error"));
            }
        }
        let end = self.effective_len();
        if self.pos >= end || want == 0 {
            // watchdog: a caller that keeps reading at end of input is not going to stop
            if want > 0 {
                self.eof_reads += 1;
                if self.eof_reads > 200_000 {
                    panic!("SIM-HANG: the reader was polled {} times at end of input without the caller giving up", self.eof_reads);
                }
            }
            return Ok(0);
        }
        let mut n = want.min((end - self.pos) as usize);
        if let Some(f) = self.plan.fail_at {
            if self.pos < f {
                n = n.min((f - self.pos) as usize);
            }
        }
        if self.plan.max_chunk > 0 {
            n = n.min(self.plan.max_chunk);
        }
        if n > 1 && self.plan.one_byte_pct > 0 && self.rng.below(100) < u64::from(self.plan.one_byte_pct)
        {
            n = 1;
        } else if n > 1 && self.plan.max_chunk > 0 {
            n = 1 + self.rng.usize_below(n);
        }
        if n < want {
            self.stats.short += 1;
        }
        Ok(n)
    }

    fn serve(&mut self, buf: &mut [u8], n: usize) {
        if n == 0 {
            return; // EOF (the position may lie beyond the end after a seek)
        }
        let p = self.pos as usize;
        buf[..n].copy_from_slice(&self.data[p..p + n]);
        self.served.push((self.pos, n));
        self.pos += n as u64;
    }

    fn do_seek(&mut self, s: SeekFrom) -> io::Result<u64> {
        self.stats.seeks += 1;
        let np: i128 = match s {
            SeekFrom::Start(p) => i128::from(p),
            SeekFrom::End(d) => self.data.len() as i128 + i128::from(d),
            SeekFrom::Current(d) => i128::from(self.pos) + i128::from(d),
        };
        if np < 0 {
            return Err(io::Error::new(io::ErrorKind::InvalidInput, "negative seek"));
        }
        self.pos = np as u64;
        self.max_offset_requested = self.max_offset_requested.max(self.pos);
        Ok(self.pos)
    }
}

impl Read for SimRead {
    fn read(&mut self, buf: &mut [u8]) -> io::Result<usize> {
        if self.plan.eintr_pct > 0 && self.rng.below(100) < u64::from(self.plan.eintr_pct) {
            self.stats.eintr += 1;
            return Err(io::Error::from(io::ErrorKind::Interrupted));
        }
        let n = self.decide(buf.len())?;
        self.serve(buf, n);
        Ok(n)
    }
}

impl Seek for SimRead {
    fn seek(&mut self, s: SeekFrom) -> io::Result<u64> {
        self.do_seek(s)
    }
}

impl AsyncRead for SimRead {
    fn poll_read(
        self: Pin<&mut Self>,
        cx: &mut Context<'_>,
        buf: &mut ReadBuf<'_>,
    ) -> Poll<io::Result<()>> {
        let me = self.get_mut();
        if me.plan.pending_pct > 0 && me.rng.below(100) < u64::from(me.plan.pending_pct) {
            me.stats.pending += 1;
            cx.waker().wake_by_ref();
            return Poll::Pending;
        }
        let want = buf.remaining();
        let n = me.decide(want)?;
        if n > 0 {
            let p = me.pos as usize;
            buf.put_slice(&me.data[p..p + n]);
            me.served.push((me.pos, n));
            me.pos += n as u64;
        }
        Poll::Ready(Ok(()))
    }
}

impl AsyncSeek for SimRead {
    fn start_seek(self: Pin<&mut Self>, s: SeekFrom) -> io::Result<()> {
        self.get_mut().do_seek(s).map(|_| ())
    }
    fn poll_complete(self: Pin<&mut Self>, _cx: &mut Context<'_>) -> Poll<io::Result<u64>> {
        Poll::Ready(Ok(self.pos))
    }
}

pub struct SimWrite {
    pub sink: Vec<u8>,
    rng: Rng,
    pub plan: IoPlan,
    pub stats: IoStats,
}

impl SimWrite {
    pub fn new(plan: IoPlan) -> Self {
        Self {
            sink: Vec::new(),
            rng: Rng::new(plan.seed ^ 0x5EED_0002),
            plan,
            stats: IoStats::default(),
        }
    }
    fn decide(&mut self, want: usize) -> io::Result<usize> {
        self.stats.calls += 1;
        let pos = self.sink.len() as u64;
        if let Some(f) = self.plan.fail_at {
            if pos >= f {
                self.stats.failed += 1;
                return Err(io::Error::new(io::ErrorKind::Other, "injected write error"));
            }
        }
        if want == 0 {
            return Ok(0);
        }
        let mut n = want;
        if let Some(f) = self.plan.fail_at {
            n = n.min((f - pos) as usize).max(1);
        }
        if self.plan.max_chunk > 0 {
            n = n.min(self.plan.max_chunk);
            if n > 1 {
                n = 1 + self.rng.usize_below(n);
            }
        }
        if n < want {
            self.stats.short += 1;
        }
        Ok(n)
    }
}

impl Write for SimWrite {
    fn write(&mut self, buf: &[u8]) -> io::Result<usize> {
        if self.plan.eintr_pct > 0 && self.rng.below(100) < u64::from(self.plan.eintr_pct) {
            self.stats.eintr += 1;
            return Err(io::Error::from(io::ErrorKind::Interrupted));
        }
        let n = self.decide(buf.len())?;
        self.sink.extend_from_slice(&buf[..n]);
        Ok(n)
    }
    fn flush(&mut self) -> io::Result<()> {
        Ok(())
    }
}

impl AsyncWrite for SimWrite {
    fn poll_write(
        self: Pin<&mut Self>,
        cx: &mut Context<'_>,
        buf: &[u8],
    ) -> Poll<io::Result<usize>> {
        let me = self.get_mut();
        if me.plan.pending_pct > 0 && me.rng.below(100) < u64::from(me.plan.pending_pct) {
            me.stats.pending += 1;
            cx.waker().wake_by_ref();
            return Poll::Pending;
        }
        let n = me.decide(buf.len())?;
        me.sink.extend_from_slice(&buf[..n]);
        Poll::Ready(Ok(n))
    }
    fn poll_flush(self: Pin<&mut Self>, _cx: &mut Context<'_>) -> Poll<io::Result<()>> {
        Poll::Ready(Ok(()))
    }
    fn poll_shutdown(self: Pin<&mut Self>, _cx: &mut Context<'_>) -> Poll<io::Result<()>> {
        Poll::Ready(Ok(()))
    }
}

/// Minimal executor for futures that only ever wake themselves (the stream seams).
pub fn block_on<F: std::future::Future>(f: F) -> F::Output {
    use std::sync::Arc;
    use std::task::{Wake, Waker};
    struct Noop;
    impl Wake for Noop {
        fn wake(self: Arc<Self>) {}
    }
    let waker = Waker::from(Arc::new(Noop));
    let mut cx = Context::from_waker(&waker);
    let mut f = Box::pin(f);
    let mut spins = 0u64;
    loop {
        if let Poll::Ready(v) = f.as_mut().poll(&mut cx) {
            return v;
        }
        spins += 1;
        assert!(spins < 50_000_000, "stream-seam future never completes");
    }
}
