//! In-memory POSIX-shaped file system for one simulated host.
//! Deterministic (BTreeMap everywhere), cloneable (snapshots for crash sweeps).

use std::collections::BTreeMap;
use std::io;

pub type Ino = u64;

pub const EPERM: i32 = 1;
pub const ENOENT: i32 = 2;
pub const EIO: i32 = 5;
pub const EBADF: i32 = 9;
pub const EACCES: i32 = 13;
pub const EEXIST: i32 = 17;
pub const EXDEV: i32 = 18;
pub const ENOTDIR: i32 = 20;
pub const EISDIR: i32 = 21;
pub const EINVAL: i32 = 22;
pub const ENOSPC: i32 = 28;
pub const EPIPE: i32 = 32;
pub const ENAMETOOLONG: i32 = 36;
pub const ENOTEMPTY: i32 = 39;
pub const ELOOP: i32 = 40;

pub fn err(code: i32) -> io::Error {
    io::Error::from_raw_os_error(code)
}

#[derive(Clone, Debug, PartialEq, Eq)]
pub enum Kind {
    File,
    Dir,
    Symlink,
}

#[derive(Clone, Debug)]
pub enum Node {
    File(Vec<u8>),
    Dir(BTreeMap<String, Ino>),
    Symlink(String),
}

#[derive(Clone, Debug)]
pub struct Inode {
    pub node: Node,
    pub mtime_ns: u64,
    pub nlink: u32,
    pub opens: u32,
    pub parent: Ino, // meaningful for directories only
    /// number of writes since the last fsync of this inode (durability bookkeeping)
    pub dirty: bool,
}

#[derive(Clone, Debug, PartialEq, Eq)]
pub struct Meta {
    pub ino: Ino,
    pub kind: Kind,
    pub len: u64,
    pub mtime_ns: u64,
    pub nlink: u32,
}

#[derive(Clone, Debug)]
pub struct SimFs {
    pub inodes: BTreeMap<Ino, Inode>,
    next: Ino,
    pub root: Ino,
}

#[derive(Clone, Copy, Debug, Default)]
pub struct OpenFlags {
    pub read: bool,
    pub write: bool,
    pub create: bool,
    pub create_new: bool,
    pub truncate: bool,
    pub append: bool,
}

pub struct Resolved {
    pub parent: Ino,
    pub name: String,
    pub ino: Option<Ino>,
    pub trailing_slash: bool,
}

impl Default for SimFs {
    fn default() -> Self {
        Self::new()
    }
}

impl SimFs {
    pub fn new() -> Self {
        let mut inodes = BTreeMap::new();
        inodes.insert(
            1,
            Inode {
                node: Node::Dir(BTreeMap::new()),
                mtime_ns: 0,
                nlink: 2,
                opens: 0,
                parent: 1,
                dirty: false,
            },
        );
        Self {
            inodes,
            next: 2,
            root: 1,
        }
    }

    fn alloc(&mut self, node: Node, parent: Ino, now: u64) -> Ino {
        let ino = self.next;
        self.next += 1;
        self.inodes.insert(
            ino,
            Inode {
                node,
                mtime_ns: now,
                nlink: 1,
                opens: 0,
                parent,
                dirty: true,
            },
        );
        ino
    }

    pub fn kind_of(&self, ino: Ino) -> Kind {
        match &self.inodes[&ino].node {
            Node::File(_) => Kind::File,
            Node::Dir(_) => Kind::Dir,
            Node::Symlink(_) => Kind::Symlink,
        }
    }

    fn dir_entries(&self, ino: Ino) -> io::Result<&BTreeMap<String, Ino>> {
        match &self.inodes.get(&ino).ok_or_else(|| err(ENOENT))?.node {
            Node::Dir(m) => Ok(m),
            _ => Err(err(ENOTDIR)),
        }
    }
    fn dir_entries_mut(&mut self, ino: Ino) -> io::Result<&mut BTreeMap<String, Ino>> {
        match &mut self.inodes.get_mut(&ino).ok_or_else(|| err(ENOENT))?.node {
            Node::Dir(m) => Ok(m),
            _ => Err(err(ENOTDIR)),
        }
    }

    /// Resolve `path` (absolute, or relative to `cwd` which must be absolute).
    /// `follow_last`: follow a symlink in the final component.
    pub fn resolve(&self, cwd: &str, path: &str, follow_last: bool) -> io::Result<Resolved> {
        self.resolve_depth(cwd, path, follow_last, 0)
    }

    fn resolve_depth(
        &self,
        cwd: &str,
        path: &str,
        follow_last: bool,
        depth: u32,
    ) -> io::Result<Resolved> {
        if path.is_empty() {
            return Err(err(ENOENT));
        }
        if path.len() > 4095 {
            return Err(err(ENAMETOOLONG));
        }
        if depth > 40 {
            return Err(err(ELOOP));
        }
        let full: String = if path.starts_with('/') {
            path.to_string()
        } else {
            format!("{}/{}", cwd.trim_end_matches('/'), path)
        };
        let trailing_slash = full.len() > 1 && full.ends_with('/');
        let comps: Vec<&str> = full.split('/').filter(|c| !c.is_empty() && *c != ".").collect();
        let mut cur = self.root;
        if comps.is_empty() {
            return Ok(Resolved {
                parent: self.root,
                name: String::new(),
                ino: Some(self.root),
                trailing_slash,
            });
        }
        let last = comps.len() - 1;
        for (i, c) in comps.iter().enumerate() {
            if c.len() > 255 {
                return Err(err(ENAMETOOLONG));
            }
            let entries = self.dir_entries(cur)?;
            if *c == ".." {
                let p = self.inodes[&cur].parent;
                if i == last {
                    return Ok(Resolved {
                        parent: self.inodes[&p].parent,
                        name: String::new(),
                        ino: Some(p),
                        trailing_slash,
                    });
                }
                cur = p;
                continue;
            }
            let child = entries.get(*c).copied();
            if i == last {
                if let Some(ch) = child {
                    if let Node::Symlink(t) = &self.inodes[&ch].node {
                        if follow_last || trailing_slash {
                            let base = self.path_of_dir(cur);
                            let r = self.resolve_depth(&base, t, true, depth + 1)?;
                            return Ok(Resolved {
                                trailing_slash,
                                ..r
                            });
                        }
                    }
                }
                return Ok(Resolved {
                    parent: cur,
                    name: (*c).to_string(),
                    ino: child,
                    trailing_slash,
                });
            }
            let ch = child.ok_or_else(|| err(ENOENT))?;
            match &self.inodes[&ch].node {
                Node::Dir(_) => cur = ch,
                Node::Symlink(t) => {
                    let base = self.path_of_dir(cur);
                    let r = self.resolve_depth(&base, t, true, depth + 1)?;
                    let target = r.ino.ok_or_else(|| err(ENOENT))?;
                    if self.kind_of(target) != Kind::Dir {
                        return Err(err(ENOTDIR));
                    }
                    cur = target;
                }
                Node::File(_) => return Err(err(ENOTDIR)),
            }
        }
        unreachable!()
    }

    /// Absolute path of a directory inode (by walking parents).
    pub fn path_of_dir(&self, mut ino: Ino) -> String {
        let mut parts: Vec<String> = Vec::new();
        while ino != self.root {
            let p = self.inodes[&ino].parent;
            let name = self
                .dir_entries(p)
                .ok()
                .and_then(|m| m.iter().find(|(_, v)| **v == ino).map(|(k, _)| k.clone()))
                .unwrap_or_default();
            parts.push(name);
            ino = p;
        }
        parts.reverse();
        format!("/{}", parts.join("/"))
    }

    pub fn meta_of(&self, ino: Ino) -> Meta {
        let n = &self.inodes[&ino];
        let (kind, len) = match &n.node {
            Node::File(d) => (Kind::File, d.len() as u64),
            Node::Dir(_) => (Kind::Dir, 4096),
            Node::Symlink(t) => (Kind::Symlink, t.len() as u64),
        };
        Meta {
            ino,
            kind,
            len,
            mtime_ns: n.mtime_ns,
            nlink: n.nlink,
        }
    }

    pub fn stat(&self, cwd: &str, path: &str, follow: bool) -> io::Result<Meta> {
        let r = self.resolve(cwd, path, follow)?;
        let ino = r.ino.ok_or_else(|| err(ENOENT))?;
        if r.trailing_slash && self.kind_of(ino) != Kind::Dir {
            return Err(err(ENOTDIR));
        }
        Ok(self.meta_of(ino))
    }

    /// open(2). Returns (ino, created, truncated_existing).
    pub fn open(
        &mut self,
        cwd: &str,
        path: &str,
        fl: OpenFlags,
        now: u64,
    ) -> io::Result<(Ino, bool)> {
        let r = self.resolve(cwd, path, true)?;
        // Linux: O_CREAT with a trailing slash is EISDIR whatever the path names
        // (calibrated against the real kernel)
        if r.trailing_slash && (fl.create || fl.create_new) {
            return Err(err(EISDIR));
        }
        match r.ino {
            Some(ino) => {
                if fl.create_new {
                    return Err(err(EEXIST));
                }
                match self.kind_of(ino) {
                    Kind::Dir => {
                        if fl.write || fl.append || fl.truncate {
                            return Err(err(EISDIR));
                        }
                    }
                    Kind::File => {
                        if r.trailing_slash {
                            return Err(err(ENOTDIR));
                        }
                    }
                    Kind::Symlink => return Err(err(ELOOP)),
                }
                if fl.truncate && fl.write {
                    if let Node::File(d) = &mut self.inodes.get_mut(&ino).unwrap().node {
                        d.clear();
                    }
                    let n = self.inodes.get_mut(&ino).unwrap();
                    n.mtime_ns = now;
                    n.dirty = true;
                }
                self.inodes.get_mut(&ino).unwrap().opens += 1;
                Ok((ino, false))
            }
            None => {
                if !(fl.create || fl.create_new) {
                    return Err(err(ENOENT));
                }
                if r.trailing_slash {
                    return Err(err(EISDIR));
                }
                if r.name.is_empty() {
                    return Err(err(EISDIR));
                }
                let ino = self.alloc(Node::File(Vec::new()), r.parent, now);
                self.dir_entries_mut(r.parent)?.insert(r.name, ino);
                self.inodes.get_mut(&r.parent).unwrap().mtime_ns = now;
                self.inodes.get_mut(&ino).unwrap().opens += 1;
                Ok((ino, true))
            }
        }
    }

    pub fn close(&mut self, ino: Ino) {
        if let Some(n) = self.inodes.get_mut(&ino) {
            n.opens = n.opens.saturating_sub(1);
            if n.opens == 0 && n.nlink == 0 {
                self.inodes.remove(&ino);
            }
        }
    }

    pub fn read_at(&self, ino: Ino, off: u64, len: usize) -> io::Result<Vec<u8>> {
        match &self.inodes.get(&ino).ok_or_else(|| err(EBADF))?.node {
            Node::File(d) => {
                let off = off.min(d.len() as u64) as usize;
                let end = (off + len).min(d.len());
                Ok(d[off..end].to_vec())
            }
            Node::Dir(_) => Err(err(EISDIR)),
            Node::Symlink(_) => Err(err(EINVAL)),
        }
    }

    pub fn write_at(&mut self, ino: Ino, off: u64, data: &[u8], now: u64) -> io::Result<usize> {
        let n = self.inodes.get_mut(&ino).ok_or_else(|| err(EBADF))?;
        match &mut n.node {
            Node::File(d) => {
                if off > 256 << 20 {
                    return Err(err(ENOSPC));
                }
                let off = off as usize;
                if d.len() < off {
                    d.resize(off, 0);
                }
                let end = off + data.len();
                if d.len() < end {
                    d.resize(end, 0);
                }
                d[off..end].copy_from_slice(data);
                n.mtime_ns = now;
                n.dirty = true;
                Ok(data.len())
            }
            _ => Err(err(EBADF)),
        }
    }

    pub fn file_len(&self, ino: Ino) -> u64 {
        match &self.inodes[&ino].node {
            Node::File(d) => d.len() as u64,
            _ => 0,
        }
    }

    pub fn set_len(&mut self, ino: Ino, len: u64, now: u64) -> io::Result<()> {
        // the simulated disk is finite: no sparse files beyond 256 MiB (a hostile length must
        // not make the simulator itself allocate it)
        if len > 256 << 20 {
            return Err(err(ENOSPC));
        }
        let n = self.inodes.get_mut(&ino).ok_or_else(|| err(EBADF))?;
        match &mut n.node {
            Node::File(d) => {
                d.resize(len as usize, 0);
                n.mtime_ns = now;
                n.dirty = true;
                Ok(())
            }
            _ => Err(err(EINVAL)),
        }
    }

    pub fn fsync(&mut self, ino: Ino) {
        if let Some(n) = self.inodes.get_mut(&ino) {
            n.dirty = false;
        }
    }

    pub fn set_mtime(&mut self, ino: Ino, ns: u64) {
        if let Some(n) = self.inodes.get_mut(&ino) {
            n.mtime_ns = ns;
        }
    }

    pub fn mkdir(&mut self, cwd: &str, path: &str, now: u64) -> io::Result<()> {
        let r = self.resolve(cwd, path, false)?;
        if r.ino.is_some() {
            return Err(err(EEXIST));
        }
        if r.name.is_empty() {
            return Err(err(EEXIST));
        }
        let ino = self.alloc(Node::Dir(BTreeMap::new()), r.parent, now);
        self.inodes.get_mut(&ino).unwrap().nlink = 2;
        self.dir_entries_mut(r.parent)?.insert(r.name, ino);
        self.inodes.get_mut(&r.parent).unwrap().mtime_ns = now;
        Ok(())
    }

    pub fn unlink(&mut self, cwd: &str, path: &str, now: u64) -> io::Result<Ino> {
        let r = self.resolve(cwd, path, false)?;
        let ino = r.ino.ok_or_else(|| err(ENOENT))?;
        match self.kind_of(ino) {
            Kind::Dir => return Err(err(EISDIR)),
            Kind::File if r.trailing_slash => return Err(err(ENOTDIR)),
            _ => {}
        }
        self.dir_entries_mut(r.parent)?.remove(&r.name);
        self.inodes.get_mut(&r.parent).unwrap().mtime_ns = now;
        let n = self.inodes.get_mut(&ino).unwrap();
        n.nlink = n.nlink.saturating_sub(1);
        if n.nlink == 0 && n.opens == 0 {
            self.inodes.remove(&ino);
        }
        Ok(ino)
    }

    /// link(2): a second name for an existing non-directory (the final symlink is not followed).
    pub fn link(&mut self, cwd: &str, from: &str, to: &str, now: u64) -> io::Result<Ino> {
        // calibrated order: the old path is looked up first (ENOENT / ENOTDIR), then the new
        // path's directory, then "new exists" (EEXIST), and only then "old is a directory" (EPERM)
        let rf = self.resolve(cwd, from, false)?;
        let src = rf.ino.ok_or_else(|| err(ENOENT))?;
        if rf.trailing_slash && self.kind_of(src) != Kind::Dir {
            return Err(err(ENOTDIR));
        }
        let rt = self.resolve(cwd, to, false)?;
        if rt.ino.is_some() {
            return Err(err(EEXIST));
        }
        if rt.name.is_empty() || rt.trailing_slash {
            return Err(err(ENOENT));
        }
        if self.kind_of(src) == Kind::Dir {
            return Err(err(EPERM));
        }
        self.dir_entries_mut(rt.parent)?.insert(rt.name.clone(), src);
        self.inodes.get_mut(&rt.parent).unwrap().mtime_ns = now;
        self.inodes.get_mut(&src).unwrap().nlink += 1;
        Ok(src)
    }

    pub fn rmdir(&mut self, cwd: &str, path: &str, now: u64) -> io::Result<()> {
        let r = self.resolve(cwd, path, false)?;
        let ino = r.ino.ok_or_else(|| err(ENOENT))?;
        if ino == self.root {
            return Err(err(EINVAL));
        }
        match &self.inodes[&ino].node {
            Node::Dir(m) => {
                if !m.is_empty() {
                    return Err(err(ENOTEMPTY));
                }
            }
            _ => return Err(err(ENOTDIR)),
        }
        self.dir_entries_mut(r.parent)?.remove(&r.name);
        self.inodes.get_mut(&r.parent).unwrap().mtime_ns = now;
        self.inodes.remove(&ino);
        Ok(())
    }

    /// rename(2): atomic replace. Returns (moved ino, replaced ino if any).
    pub fn rename(
        &mut self,
        cwd: &str,
        from: &str,
        to: &str,
        now: u64,
    ) -> io::Result<(Ino, Option<Ino>)> {
        // Linux resolves both parent paths before it looks up the source's last component
        // (calibrated: a missing source with ENOTDIR in the target path is ENOTDIR)
        let rf = self.resolve(cwd, from, false)?;
        let rt = self.resolve(cwd, to, false)?;
        let src = rf.ino.ok_or_else(|| err(ENOENT))?;
        if rf.name.is_empty() {
            return Err(err(EINVAL));
        }
        if rt.name.is_empty() {
            return Err(err(EINVAL));
        }
        let src_kind = self.kind_of(src);
        if (rf.trailing_slash || rt.trailing_slash) && src_kind != Kind::Dir {
            return Err(err(ENOTDIR));
        }
        if src_kind == Kind::Dir && rt.ino != Some(src) {
            // a directory may not be moved into itself (checked before the target is looked at:
            // calibrated, `rename d d/e/` with d/e an existing directory is EINVAL, not ENOTEMPTY)
            let mut p = rt.parent;
            loop {
                if p == src {
                    return Err(err(EINVAL));
                }
                if p == self.root {
                    break;
                }
                p = self.inodes[&p].parent;
            }
        }
        let mut replaced = None;
        if let Some(dst) = rt.ino {
            if dst == src {
                return Ok((src, None));
            }
            // the target is an ancestor directory of the source: ENOTEMPTY on Linux
            if self.kind_of(dst) == Kind::Dir {
                let mut p = rf.parent;
                loop {
                    if p == dst {
                        return Err(err(ENOTEMPTY));
                    }
                    if p == self.root {
                        break;
                    }
                    p = self.inodes[&p].parent;
                }
            }
            match (src_kind.clone(), self.kind_of(dst)) {
                (Kind::Dir, Kind::Dir) => {
                    if !self.dir_entries(dst)?.is_empty() {
                        return Err(err(ENOTEMPTY));
                    }
                }
                (Kind::Dir, _) => return Err(err(ENOTDIR)),
                (_, Kind::Dir) => return Err(err(EISDIR)),
                _ => {}
            }
            replaced = Some(dst);
        }
        if src_kind == Kind::Dir {
            // a directory may not be moved into itself
            let mut p = rt.parent;
            loop {
                if p == src {
                    return Err(err(EINVAL));
                }
                if p == self.root {
                    break;
                }
                p = self.inodes[&p].parent;
            }
        }
        self.dir_entries_mut(rf.parent)?.remove(&rf.name);
        self.dir_entries_mut(rt.parent)?.insert(rt.name.clone(), src);
        self.inodes.get_mut(&rf.parent).unwrap().mtime_ns = now;
        self.inodes.get_mut(&rt.parent).unwrap().mtime_ns = now;
        if src_kind == Kind::Dir {
            self.inodes.get_mut(&src).unwrap().parent = rt.parent;
        }
        if let Some(dst) = replaced {
            let is_dir = self.kind_of(dst) == Kind::Dir;
            let n = self.inodes.get_mut(&dst).unwrap();
            if is_dir {
                self.inodes.remove(&dst);
            } else {
                n.nlink = n.nlink.saturating_sub(1);
                if n.nlink == 0 && n.opens == 0 {
                    self.inodes.remove(&dst);
                }
            }
        }
        Ok((src, replaced))
    }

    pub fn symlink(&mut self, cwd: &str, target: &str, link: &str, now: u64) -> io::Result<()> {
        let r = self.resolve(cwd, link, false)?;
        if r.ino.is_some() {
            return Err(err(EEXIST));
        }
        let ino = self.alloc(Node::Symlink(target.to_string()), r.parent, now);
        self.dir_entries_mut(r.parent)?.insert(r.name, ino);
        Ok(())
    }

    pub fn readlink(&self, cwd: &str, path: &str) -> io::Result<String> {
        let r = self.resolve(cwd, path, false)?;
        let ino = r.ino.ok_or_else(|| err(ENOENT))?;
        match &self.inodes[&ino].node {
            Node::Symlink(t) => Ok(t.clone()),
            _ => Err(err(EINVAL)),
        }
    }

    pub fn readdir(&self, cwd: &str, path: &str) -> io::Result<Vec<(String, Ino)>> {
        let r = self.resolve(cwd, path, true)?;
        let ino = r.ino.ok_or_else(|| err(ENOENT))?;
        Ok(self
            .dir_entries(ino)?
            .iter()
            .map(|(k, v)| (k.clone(), *v))
            .collect())
    }

    pub fn canonicalize(&self, cwd: &str, path: &str) -> io::Result<String> {
        let r = self.resolve(cwd, path, true)?;
        let ino = r.ino.ok_or_else(|| err(ENOENT))?;
        if self.kind_of(ino) == Kind::Dir {
            Ok(self.path_of_dir(ino))
        } else {
            let base = self.path_of_dir(r.parent);
            Ok(format!("{}/{}", base.trim_end_matches('/'), r.name))
        }
    }

    // ---- harness-side conveniences (not syscalls; used to build and inspect worlds) ----

    pub fn mkdir_p(&mut self, path: &str, now: u64) {
        let mut cur = String::new();
        for c in path.split('/').filter(|c| !c.is_empty()) {
            cur.push('/');
            cur.push_str(c);
            let _ = self.mkdir("/", &cur, now);
        }
    }

    pub fn put_file(&mut self, path: &str, data: &[u8], mtime_ns: u64) {
        if let Some(idx) = path.rfind('/') {
            if idx > 0 {
                self.mkdir_p(&path[..idx], mtime_ns);
            }
        }
        let fl = OpenFlags {
            write: true,
            create: true,
            truncate: true,
            ..Default::default()
        };
        let (ino, _) = self
            .open("/", path, fl, mtime_ns)
            .unwrap_or_else(|e| panic!("put_file {path}: {e}"));
        self.write_at(ino, 0, data, mtime_ns).unwrap();
        self.inodes.get_mut(&ino).unwrap().mtime_ns = mtime_ns;
        self.inodes.get_mut(&ino).unwrap().dirty = false;
        self.close(ino);
    }

    pub fn get_file(&self, path: &str) -> Option<Vec<u8>> {
        let r = self.resolve("/", path, true).ok()?;
        match &self.inodes.get(&r.ino?)?.node {
            Node::File(d) => Some(d.clone()),
            _ => None,
        }
    }

    pub fn remove_file(&mut self, path: &str) -> bool {
        self.unlink("/", path, 0).is_ok()
    }

    pub fn exists(&self, path: &str) -> bool {
        self.stat("/", path, true).is_ok()
    }

    /// All regular files under `root` (recursive): relative path -> (bytes, mtime_ns).
    pub fn tree(&self, root: &str) -> BTreeMap<String, (Vec<u8>, u64)> {
        let mut out = BTreeMap::new();
        let Ok(r) = self.resolve("/", root, true) else {
            return out;
        };
        let Some(ino) = r.ino else { return out };
        self.walk(ino, String::new(), &mut out);
        out
    }

    fn walk(&self, ino: Ino, prefix: String, out: &mut BTreeMap<String, (Vec<u8>, u64)>) {
        if let Node::Dir(m) = &self.inodes[&ino].node {
            for (name, ch) in m {
                let p = if prefix.is_empty() {
                    name.clone()
                } else {
                    format!("{prefix}/{name}")
                };
                match &self.inodes[ch].node {
                    Node::File(d) => {
                        out.insert(p, (d.clone(), self.inodes[ch].mtime_ns));
                    }
                    Node::Dir(_) => self.walk(*ch, p, out),
                    Node::Symlink(_) => {}
                }
            }
        }
    }

    /// All directories under `root` (relative paths), for "no directory created" oracles.
    pub fn dirs(&self, root: &str) -> Vec<String> {
        let mut out = Vec::new();
        if let Ok(r) = self.resolve("/", root, true) {
            if let Some(ino) = r.ino {
                self.walk_dirs(ino, String::new(), &mut out);
            }
        }
        out
    }
    fn walk_dirs(&self, ino: Ino, prefix: String, out: &mut Vec<String>) {
        if let Node::Dir(m) = &self.inodes[&ino].node {
            for (name, ch) in m {
                if let Node::Dir(_) = &self.inodes[ch].node {
                    let p = if prefix.is_empty() {
                        name.clone()
                    } else {
                        format!("{prefix}/{name}")
                    };
                    out.push(p.clone());
                    self.walk_dirs(*ch, p, out);
                }
            }
        }
    }
}
