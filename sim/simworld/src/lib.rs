//! copia_simworld — a deterministic simulated world (file systems, pipes, processes,
//! flock, clock) plus drop-in `std` / `tokio` / `fs2` shims, for running the real
//! paiml/copia CLI and library under a seeded scheduler with fault injection.

pub mod alloc;
pub mod ext;
pub mod fs;
pub mod kernel;
pub mod rng;
pub mod shim;
pub mod streams;
pub mod sys;

use std::ops::Deref;
use std::path::{Path, PathBuf};

/// Owned path whose `is_dir/is_file/is_symlink/exists` ask the simulated file system
/// (the inherent methods of the real `Path` would ask the real kernel).
#[derive(Clone, Debug, PartialEq, Eq, PartialOrd, Ord)]
pub struct SimPath(pub PathBuf);

impl From<PathBuf> for SimPath {
    fn from(p: PathBuf) -> Self {
        SimPath(p)
    }
}
impl From<SimPath> for PathBuf {
    fn from(p: SimPath) -> Self {
        p.0
    }
}
impl Deref for SimPath {
    type Target = Path;
    fn deref(&self) -> &Path {
        &self.0
    }
}
impl AsRef<Path> for SimPath {
    fn as_ref(&self) -> &Path {
        &self.0
    }
}
impl AsRef<std::ffi::OsStr> for SimPath {
    fn as_ref(&self) -> &std::ffi::OsStr {
        self.0.as_os_str()
    }
}
impl SimPath {
    pub fn is_dir(&self) -> bool {
        SimPathRef(&self.0).is_dir()
    }
    pub fn is_file(&self) -> bool {
        SimPathRef(&self.0).is_file()
    }
    pub fn is_symlink(&self) -> bool {
        SimPathRef(&self.0).is_symlink()
    }
    pub fn exists(&self) -> bool {
        SimPathRef(&self.0).exists()
    }
}

/// Borrowed counterpart of [`SimPath`].
#[derive(Clone, Copy, Debug)]
pub struct SimPathRef<'a>(pub &'a Path);

impl<'a> From<&'a Path> for SimPathRef<'a> {
    fn from(p: &'a Path) -> Self {
        SimPathRef(p)
    }
}
impl<'a> From<&'a PathBuf> for SimPathRef<'a> {
    fn from(p: &'a PathBuf) -> Self {
        SimPathRef(p.as_path())
    }
}
impl Deref for SimPathRef<'_> {
    type Target = Path;
    fn deref(&self) -> &Path {
        self.0
    }
}
impl AsRef<Path> for SimPathRef<'_> {
    fn as_ref(&self) -> &Path {
        self.0
    }
}
impl SimPathRef<'_> {
    pub fn is_dir(&self) -> bool {
        shim::std_fs::metadata(self.0).map(|m| m.is_dir()).unwrap_or(false)
    }
    pub fn is_file(&self) -> bool {
        shim::std_fs::metadata(self.0).map(|m| m.is_file()).unwrap_or(false)
    }
    pub fn is_symlink(&self) -> bool {
        shim::std_fs::symlink_metadata(self.0)
            .map(|m| m.is_symlink())
            .unwrap_or(false)
    }
    pub fn exists(&self) -> bool {
        shim::std_fs::metadata(self.0).is_ok()
    }
}

#[macro_export]
macro_rules! println {
    () => { $crate::shim::out(1, ::std::format_args!(""), true) };
    ($($arg:tt)*) => { $crate::shim::out(1, ::std::format_args!($($arg)*), true) };
}

#[macro_export]
macro_rules! eprintln {
    () => { $crate::shim::out(2, ::std::format_args!(""), true) };
    ($($arg:tt)*) => { $crate::shim::out(2, ::std::format_args!($($arg)*), true) };
}

#[macro_export]
macro_rules! print {
    ($($arg:tt)*) => { $crate::shim::out(1, ::std::format_args!($($arg)*), false) };
}

#[macro_export]
macro_rules! eprint {
    ($($arg:tt)*) => { $crate::shim::out(2, ::std::format_args!($($arg)*), false) };
}
