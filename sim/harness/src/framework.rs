//! Check framework: seeded run indices split over worker processes, minimisation,
//! replay files confirmed in a fresh process, evidence, known findings.

use copia_simworld::rng::derive;
use serde::{de::DeserializeOwned, Deserialize, Serialize};
use serde_json::{json, Value};
use std::collections::{BTreeMap, BTreeSet};
use std::io::Write;
use std::path::{Path, PathBuf};
use std::time::Instant;

pub const DEFAULT_SEED: u64 = 20_260_925;
pub const HARNESS_VERSION: &str = "simcheck-1";

#[derive(Clone, Copy, Debug, PartialEq, Eq)]
pub enum Tier {
    Quick,
    Thorough,
}

impl Tier {
    pub fn name(self) -> &'static str {
        match self {
            Tier::Quick => "quick",
            Tier::Thorough => "thorough",
        }
    }
}

#[derive(Clone, Debug, Serialize, Deserialize, PartialEq, Eq)]
pub struct Violation {
    pub oracle: String,
    /// root-cause class (what the known-findings file matches on)
    pub class: String,
    pub detail: String,
}

#[derive(Clone, Debug, Default)]
pub struct RunReport {
    pub violation: Option<Violation>,
    pub nontrivial: bool,
    pub shape: u64,
    pub probes: BTreeMap<String, u64>,
    pub faults: BTreeMap<String, u64>,
    pub steps: u64,
    pub sim_ns: u64,
    /// number of simulated executions inside this run (crash sweeps run many)
    pub execs: u64,
    pub harness_error: Option<String>,
    pub end_state: u64,
}

impl RunReport {
    pub fn probe(&mut self, k: &str, n: u64) {
        *self.probes.entry(k.to_string()).or_insert(0) += n;
    }
    pub fn fault(&mut self, k: &str, n: u64) {
        *self.faults.entry(k.to_string()).or_insert(0) += n;
    }
    pub fn fail(&mut self, oracle: &str, class: &str, detail: String) {
        if self.violation.is_none() {
            self.violation = Some(Violation {
                oracle: oracle.to_string(),
                class: class.to_string(),
                detail,
            });
        }
    }
}

pub trait Check: Sync {
    type Sc: Serialize + DeserializeOwned + Clone;
    fn id(&self) -> &'static str;
    fn level(&self) -> &'static str;
    fn rule(&self) -> String;
    fn assumptions(&self) -> Vec<String>;
    fn components(&self) -> Value;
    fn runs(&self, tier: Tier) -> u64;
    fn generate(&self, seed: u64, tier: Tier) -> Self::Sc;
    fn execute(&self, sc: &Self::Sc) -> RunReport;
    /// one-step smaller candidates, most aggressive first
    fn shrink(&self, _sc: &Self::Sc) -> Vec<Self::Sc> {
        Vec::new()
    }
    /// probes that must not stay at zero (warning only)
    fn expected_probes(&self) -> Vec<&'static str> {
        Vec::new()
    }
}

pub trait DynCheck: Sync {
    fn id(&self) -> &'static str;
    fn level(&self) -> &'static str;
    fn rule(&self) -> String;
    fn assumptions(&self) -> Vec<String>;
    fn components(&self) -> Value;
    fn runs(&self, tier: Tier) -> u64;
    fn run_seed(&self, seed: u64, tier: Tier) -> (RunReport, Value);
    fn execute_value(&self, sc: &Value) -> Result<RunReport, String>;
    fn minimise(&self, sc: &Value, want: &Violation, budget: u32) -> (Value, u32);
    fn expected_probes(&self) -> Vec<&'static str>;
    fn sample(&self, seed: u64, tier: Tier) -> Value;
}

pub struct Erased<C: Check>(pub C);

impl<C: Check> DynCheck for Erased<C> {
    fn id(&self) -> &'static str {
        self.0.id()
    }
    fn level(&self) -> &'static str {
        self.0.level()
    }
    fn rule(&self) -> String {
        self.0.rule()
    }
    fn assumptions(&self) -> Vec<String> {
        self.0.assumptions()
    }
    fn components(&self) -> Value {
        self.0.components()
    }
    fn runs(&self, tier: Tier) -> u64 {
        self.0.runs(tier)
    }
    fn run_seed(&self, seed: u64, tier: Tier) -> (RunReport, Value) {
        let sc = self.0.generate(seed, tier);
        let rep = exec_guarded(&self.0, &sc);
        let v = if rep.violation.is_some() || rep.harness_error.is_some() {
            serde_json::to_value(&sc).unwrap_or(Value::Null)
        } else {
            Value::Null
        };
        (rep, v)
    }
    fn sample(&self, seed: u64, tier: Tier) -> Value {
        let sc = self.0.generate(seed, tier);
        serde_json::to_value(&sc).unwrap_or(Value::Null)
    }
    fn execute_value(&self, sc: &Value) -> Result<RunReport, String> {
        let sc: C::Sc = serde_json::from_value(sc.clone()).map_err(|e| e.to_string())?;
        Ok(exec_guarded(&self.0, &sc))
    }
    fn minimise(&self, sc: &Value, want: &Violation, budget: u32) -> (Value, u32) {
        let Ok(mut cur) = serde_json::from_value::<C::Sc>(sc.clone()) else {
            return (sc.clone(), 0);
        };
        let mut used = 0u32;
        'outer: loop {
            if used >= budget {
                break;
            }
            for cand in self.0.shrink(&cur) {
                if used >= budget {
                    break 'outer;
                }
                used += 1;
                let rep = exec_guarded(&self.0, &cand);
                if let Some(v) = &rep.violation {
                    if v.oracle == want.oracle && v.class == want.class {
                        cur = cand;
                        continue 'outer;
                    }
                }
            }
            break;
        }
        (serde_json::to_value(&cur).unwrap_or(Value::Null), used)
    }
    fn expected_probes(&self) -> Vec<&'static str> {
        self.0.expected_probes()
    }
}

/// Execute one scenario; if a stand-in (remote shell, coreutils) met something it does not model,
/// the run is a harness error, never a verdict.
fn exec_guarded<C: Check>(c: &C, sc: &C::Sc) -> RunReport {
    let _ = copia_simworld::kernel::take_unsupported();
    let mut rep = c.execute(sc);
    if let Some(what) = copia_simworld::kernel::take_unsupported() {
        rep.violation = None;
        rep.harness_error = Some(format!("simulated code reached something the simulated world does not model ({what}); no verdict"));
    }
    rep
}

pub fn verif_dir() -> PathBuf {
    std::env::var("VERIF_DIR")
        .map(PathBuf::from)
        .unwrap_or_else(|_| PathBuf::from("/verif"))
}

pub fn env_seed() -> u64 {
    std::env::var("VERIF_SEED")
        .ok()
        .and_then(|s| s.trim().parse::<i128>().ok())
        .map(|v| v as u64)
        .unwrap_or(DEFAULT_SEED)
}

// ------------------------------------------------------------------------------------
// worker
// ------------------------------------------------------------------------------------

#[derive(Serialize, Deserialize, Default)]
pub struct WorkerSummary {
    pub runs: u64,
    pub execs: u64,
    pub steps: u64,
    pub sim_ns: u64,
    pub nontrivial: u64,
    pub probes: BTreeMap<String, u64>,
    pub faults: BTreeMap<String, u64>,
    pub shapes_file: String,
    pub end_states: u64,
    pub harness_errors: Vec<String>,
    pub violations: Vec<ViolRec>,
    pub wall_s: f64,
}

#[derive(Serialize, Deserialize, Clone)]
pub struct ViolRec {
    pub run_index: u64,
    pub run_seed: u64,
    pub violation: Violation,
    pub replay: String,
    pub minimise_execs: u32,
}

pub fn replay_file_json(id: &str, run_seed: u64, sc: &Value, v: &Violation) -> Value {
    json!({
        "property": id,
        "harness_version": HARNESS_VERSION,
        "run_seed": run_seed,
        "expected": { "oracle": v.oracle, "class": v.class },
        "detail": v.detail,
        "scenario": sc,
    })
}

pub fn worker(
    check: &dyn DynCheck,
    tier: Tier,
    seed: u64,
    shard: u64,
    nshards: u64,
    total_runs: u64,
    wall_cap_s: f64,
    tmp: &Path,
) -> WorkerSummary {
    let t0 = Instant::now();
    let mut s = WorkerSummary::default();
    let mut shapes: BTreeSet<u64> = BTreeSet::new();
    let mut ends: BTreeSet<u64> = BTreeSet::new();
    let mut seen_classes: BTreeSet<String> = BTreeSet::new();
    let mut i = shard;
    while i < total_runs {
        if t0.elapsed().as_secs_f64() > wall_cap_s {
            break;
        }
        let run_seed = derive(seed, check.id(), i);
        let (rep, sc) = check.run_seed(run_seed, tier);
        s.runs += 1;
        s.execs += rep.execs.max(1);
        s.steps += rep.steps;
        s.sim_ns += rep.sim_ns;
        for (k, v) in &rep.probes {
            *s.probes.entry(k.clone()).or_insert(0) += v;
        }
        for (k, v) in &rep.faults {
            *s.faults.entry(k.clone()).or_insert(0) += v;
        }
        if rep.nontrivial {
            s.nontrivial += 1;
            shapes.insert(rep.shape);
        }
        if rep.end_state != 0 {
            ends.insert(rep.end_state);
        }
        if let Some(e) = rep.harness_error {
            if s.harness_errors.len() < 5 {
                s.harness_errors
                    .push(format!("run {i} seed {run_seed}: {e}"));
            }
        }
        if let Some(v) = rep.violation {
            let key = format!("{}|{}", v.oracle, v.class);
            if !seen_classes.contains(&key) && seen_classes.len() < 6 {
                seen_classes.insert(key);
                let (min_sc, used) = check.minimise(&sc, &v, 300);
                // re-run the minimised scenario to get its own detail text and the executed
                // schedule-and-fault trace (every step the scheduler chose, every fault fired)
                copia_simworld::kernel::arm_trace_dump();
                let v2 = check
                    .execute_value(&min_sc)
                    .ok()
                    .and_then(|r| r.violation)
                    .unwrap_or_else(|| v.clone());
                let trace = copia_simworld::kernel::take_trace_dump();
                let dir = verif_dir().join("replays");
                let _ = std::fs::create_dir_all(&dir);
                let path = dir.join(format!("{}-{}.json", check.id(), run_seed));
                let mut body = replay_file_json(check.id(), run_seed, &min_sc, &v2);
                body["schedule_and_fault_trace"] = json!(trace);
                body["minimisation"] = json!({"re_executions": used});
                let _ = std::fs::write(&path, serde_json::to_vec_pretty(&body).unwrap_or_default());
                s.violations.push(ViolRec {
                    run_index: i,
                    run_seed,
                    violation: v2,
                    replay: path.to_string_lossy().into_owned(),
                    minimise_execs: used,
                });
            }
        }
        i += nshards;
    }
    // shapes to a file (binary u64 LE)
    let f = tmp.join(format!("shapes-{}-{shard}.bin", check.id()));
    if let Ok(mut fh) = std::fs::File::create(&f) {
        for h in &shapes {
            let _ = fh.write_all(&h.to_le_bytes());
        }
    }
    s.shapes_file = f.to_string_lossy().into_owned();
    s.end_states = ends.len() as u64;
    s.wall_s = t0.elapsed().as_secs_f64();
    s
}

// ------------------------------------------------------------------------------------
// known findings
// ------------------------------------------------------------------------------------

#[derive(Serialize, Deserialize, Clone, Debug)]
pub struct Finding {
    pub property: String,
    pub class: String,
    /// "known" or "fixed"
    pub status: String,
    #[serde(default)]
    pub commit: String,
    pub what: String,
    /// pinned replay file (relative to /verif) that demonstrates a known finding
    #[serde(default)]
    pub replay: String,
}

pub fn load_findings() -> Vec<Finding> {
    let p = verif_dir().join("known_findings.json");
    let Ok(b) = std::fs::read(&p) else {
        return Vec::new();
    };
    #[derive(Deserialize)]
    struct F {
        findings: Vec<Finding>,
    }
    serde_json::from_slice::<F>(&b)
        .map(|f| f.findings)
        .unwrap_or_default()
}

// ------------------------------------------------------------------------------------
// supervisor
// ------------------------------------------------------------------------------------

pub struct SuperCfg {
    pub tier: Tier,
    pub seed: u64,
    pub workers: u64,
    pub runs_override: Option<u64>,
    pub wall_cap_s: f64,
    pub write_evidence: bool,
}

/// Returns the process exit code: 0 held, 1 violation, 2 harness error.
pub fn supervise(check: &dyn DynCheck, cfg: &SuperCfg) -> i32 {
    let t0 = Instant::now();
    let id = check.id();
    println!(
        "simcheck {id} tier={} VERIF_SEED={} workers={}",
        cfg.tier.name(),
        cfg.seed,
        cfg.workers
    );
    let total = cfg.runs_override.unwrap_or_else(|| check.runs(cfg.tier));
    let exe = std::env::current_exe().expect("current_exe");
    let tmp = verif_dir().join("sim/target/tmp").join(format!("simcheck-{}-{}", id, std::process::id()));
    let _ = std::fs::create_dir_all(&tmp);
    let mut children = Vec::new();
    for w in 0..cfg.workers {
        let child = std::process::Command::new(&exe)
            .arg("worker")
            .arg(id)
            .arg(cfg.tier.name())
            .arg(cfg.seed.to_string())
            .arg(w.to_string())
            .arg(cfg.workers.to_string())
            .arg(total.to_string())
            .arg(format!("{}", cfg.wall_cap_s))
            .arg(&tmp)
            .stdout(std::process::Stdio::piped())
            .stderr(std::process::Stdio::inherit())
            .spawn()
            .expect("spawn worker");
        children.push(child);
    }
    let mut sums: Vec<WorkerSummary> = Vec::new();
    let mut harness_errors: Vec<String> = Vec::new();
    for (w, c) in children.into_iter().enumerate() {
        let out = c.wait_with_output().expect("worker output");
        if !out.status.success() {
            harness_errors.push(format!("worker {w} died: {}", out.status));
        }
        let text = String::from_utf8_lossy(&out.stdout);
        let mut got = false;
        for line in text.lines() {
            if let Some(rest) = line.strip_prefix("SUMMARY ") {
                if let Ok(s) = serde_json::from_str::<WorkerSummary>(rest) {
                    sums.push(s);
                    got = true;
                }
            }
        }
        if !got {
            harness_errors.push(format!("worker {w} produced no summary"));
        }
    }
    // merge
    let mut runs = 0u64;
    let mut execs = 0u64;
    let mut steps = 0u64;
    let mut sim_ns = 0u64;
    let mut nontrivial = 0u64;
    let mut probes: BTreeMap<String, u64> = BTreeMap::new();
    let mut faults: BTreeMap<String, u64> = BTreeMap::new();
    let mut shapes: BTreeSet<u64> = BTreeSet::new();
    let mut end_states = 0u64;
    let mut viols: Vec<ViolRec> = Vec::new();
    for s in &sums {
        runs += s.runs;
        execs += s.execs;
        steps += s.steps;
        sim_ns += s.sim_ns;
        nontrivial += s.nontrivial;
        end_states += s.end_states;
        for (k, v) in &s.probes {
            *probes.entry(k.clone()).or_insert(0) += v;
        }
        for (k, v) in &s.faults {
            *faults.entry(k.clone()).or_insert(0) += v;
        }
        if let Ok(b) = std::fs::read(&s.shapes_file) {
            for c in b.chunks_exact(8) {
                shapes.insert(u64::from_le_bytes(c.try_into().unwrap()));
            }
        }
        harness_errors.extend(s.harness_errors.iter().cloned());
        viols.extend(s.violations.iter().cloned());
    }
    let _ = std::fs::remove_dir_all(&tmp);

    // confirm each violation class by replaying its file in a fresh process
    let findings = load_findings();
    let mut confirmed: Vec<ViolRec> = Vec::new();
    let mut by_class: BTreeMap<String, ViolRec> = BTreeMap::new();
    for v in viols {
        by_class
            .entry(format!("{}|{}", v.violation.oracle, v.violation.class))
            .or_insert(v);
    }
    for (_, v) in by_class {
        let st = std::process::Command::new(&exe)
            .arg("replay")
            .arg(&v.replay)
            .arg("--quiet")
            .status();
        match st {
            Ok(s) if s.code() == Some(1) => confirmed.push(v),
            Ok(s) => harness_errors.push(format!(
                "replay of {} did not reproduce (exit {:?}) — nondeterminism in the harness",
                v.replay,
                s.code()
            )),
            Err(e) => harness_errors.push(format!("replay spawn: {e}")),
        }
    }

    // known findings: replay each pinned file; print KNOWN-FINDING lines
    let mut known_lines = Vec::new();
    let mut known_classes: BTreeSet<String> = BTreeSet::new();
    for f in findings.iter().filter(|f| f.property == id && f.status == "known") {
        known_classes.insert(f.class.clone());
        let mut repro = "not re-run";
        if !f.replay.is_empty() {
            let p = verif_dir().join(&f.replay);
            let st = std::process::Command::new(&exe)
                .arg("replay")
                .arg(&p)
                .arg("--quiet")
                .status();
            repro = match st {
                Ok(s) if s.code() == Some(1) => "reproduced by its pinned replay",
                Ok(s) if s.code() == Some(0) => "pinned replay no longer fails",
                _ => "pinned replay could not be run",
            };
        }
        known_lines.push(format!(
            "KNOWN-FINDING: property={id} {} [class={}; {repro}]",
            f.what, f.class
        ));
    }
    let mut new_viol: Vec<&ViolRec> = Vec::new();
    let mut known_hits = 0u64;
    for v in &confirmed {
        if known_classes.contains(&v.violation.class) {
            known_hits += 1;
        } else {
            new_viol.push(v);
        }
    }
    for l in &known_lines {
        println!("{l}");
    }

    let wall = t0.elapsed().as_secs_f64();
    for p in check.expected_probes() {
        if probes.get(p).copied().unwrap_or(0) == 0 {
            println!("WARNING: probe '{p}' stayed at 0 in this run");
        }
    }
    if cfg.write_evidence {
        let samples: Vec<Value> = (0..3)
            .map(|i| {
                let rs = derive(cfg.seed, id, i);
                json!({"run_index": i, "run_seed": rs, "scenario": truncate_value(check.sample(rs, cfg.tier), 0)})
            })
            .collect();
        let ev = json!({
            "property_id": id,
            "tier": cfg.tier.name(),
            "seed": cfg.seed as i64,
            "level": check.level(),
            "wall_s": wall,
            "violations": new_viol.len(),
            "coverage": {
                "evaluations": execs,
                "runs": runs,
                "planned_runs": total,
                "distinct_nontrivial": shapes.len(),
                "nontrivial_runs": nontrivial,
                "rule": check.rule(),
                "samples": samples,
                "simulated_executions_per_hour": if wall > 0.0 { (execs as f64 / wall * 3600.0) as u64 } else { 0 },
                "runs_per_hour": if wall > 0.0 { (runs as f64 / wall * 3600.0) as u64 } else { 0 },
                "scheduler_steps": steps,
                "simulated_time_s": sim_ns as f64 / 1e9,
                "faults_fired": faults,
                "probes": probes,
                "distinct_end_states_sum_over_workers": end_states,
                "components": check.components(),
                "known_finding_hits": known_hits,
                "harness_errors": harness_errors,
                "seed_derivation": "run_seed = derive(VERIF_SEED, property id, run index); independent of worker count",
                "copia_repo": env!("COPIA_REPO_BUILT"),
            },
            "assumptions": check.assumptions(),
        });
        let dir = verif_dir().join("evidence");
        let _ = std::fs::create_dir_all(&dir);
        let _ = std::fs::write(
            dir.join(format!("{id}.json")),
            serde_json::to_vec_pretty(&ev).unwrap_or_default(),
        );
    }
    println!(
        "{id}: runs={runs} executions={execs} steps={steps} distinct_nontrivial={} wall={wall:.1}s",
        shapes.len()
    );
    for v in &new_viol {
        println!(
            "  oracle={} class={} detail={}",
            v.violation.oracle, v.violation.class, v.violation.detail
        );
        println!("VIOLATION property={id} replay={}", v.replay);
    }
    if !new_viol.is_empty() {
        return 1;
    }
    if !harness_errors.is_empty() {
        for e in &harness_errors {
            eprintln!("HARNESS-ERROR: {e}");
        }
        return 2;
    }
    0
}

fn truncate_value(v: Value, depth: u32) -> Value {
    match v {
        Value::String(s) if s.len() > 200 => {
            Value::String(format!("{}…(+{} chars)", &s[..s.char_indices().nth(120).map(|x| x.0).unwrap_or(s.len().min(120))], s.len()))
        }
        Value::Array(a) => {
            let n = a.len();
            let mut out: Vec<Value> = a
                .into_iter()
                .take(24)
                .map(|x| truncate_value(x, depth + 1))
                .collect();
            if n > 24 {
                out.push(Value::String(format!("…(+{} more)", n - 24)));
            }
            Value::Array(out)
        }
        Value::Object(m) => Value::Object(
            m.into_iter()
                .map(|(k, x)| (k, truncate_value(x, depth + 1)))
                .collect(),
        ),
        other => other,
    }
}

/// `simcheck replay <file>`: exit 1 if the file's expected violation reproduces,
/// 0 if the scenario passes, 2 otherwise.
pub fn replay(checks: &[Box<dyn DynCheck>], path: &str, quiet: bool) -> i32 {
    let Ok(b) = std::fs::read(path) else {
        eprintln!("cannot read {path}");
        return 2;
    };
    let Ok(v) = serde_json::from_slice::<Value>(&b) else {
        eprintln!("not JSON: {path}");
        return 2;
    };
    let id = v["property"].as_str().unwrap_or("");
    let Some(c) = checks.iter().find(|c| c.id() == id) else {
        eprintln!("unknown property {id}");
        return 2;
    };
    match c.execute_value(&v["scenario"]) {
        Err(e) => {
            eprintln!("scenario does not parse: {e}");
            2
        }
        Ok(rep) => match rep.violation {
            Some(viol) => {
                let same = viol.oracle == v["expected"]["oracle"].as_str().unwrap_or("")
                    && viol.class == v["expected"]["class"].as_str().unwrap_or("");
                if !quiet {
                    println!(
                        "replay {path}: oracle={} class={}\n  {}",
                        viol.oracle, viol.class, viol.detail
                    );
                    println!("VIOLATION property={id} replay={path}");
                }
                if same {
                    1
                } else {
                    if !quiet {
                        println!("(a different violation than the file expects)");
                    }
                    1
                }
            }
            None => {
                if let Some(e) = rep.harness_error {
                    eprintln!("harness error: {e}");
                    return 2;
                }
                if !quiet {
                    println!("replay {path}: scenario passes");
                }
                0
            }
        },
    }
}


// ------------------------------------------------------------------------------------
// determinism self-test
// ------------------------------------------------------------------------------------

fn report_fp(rep: &RunReport) -> u64 {
    let mut h = 0xcbf2_9ce4_8422_2325u64;
    let mut mix = |v: u64| h = (h ^ v).wrapping_mul(0x100_0000_01B3).rotate_left(13);
    mix(rep.shape);
    mix(rep.steps);
    mix(rep.execs);
    mix(rep.end_state);
    mix(u64::from(rep.nontrivial));
    for (k, v) in &rep.probes {
        for b in k.bytes() {
            mix(u64::from(b));
        }
        mix(*v);
    }
    for (k, v) in &rep.faults {
        for b in k.bytes() {
            mix(u64::from(b));
        }
        mix(*v);
    }
    if let Some(v) = &rep.violation {
        for b in v.oracle.bytes().chain(v.class.bytes()).chain(v.detail.bytes()) {
            mix(u64::from(b));
        }
    }
    if let Some(e) = &rep.harness_error {
        for b in e.bytes() {
            mix(u64::from(b));
        }
    }
    h
}

/// `simcheck selftest-worker <ID> <seed> <shard> <nshards> <count>`: prints "FP <i> <fp>".
pub fn selftest_worker(check: &dyn DynCheck, seed: u64, shard: u64, n: u64, count: u64) {
    let mut i = shard;
    while i < count {
        let rs = derive(seed, check.id(), i);
        copia_simworld::kernel::reset_run_fp(true);
        let (rep, _) = check.run_seed(rs, Tier::Quick);
        let fp = report_fp(&rep) ^ copia_simworld::kernel::take_run_fp();
        println!("FP {i} {fp}");
        i += n;
    }
}

/// Every run index is executed twice, in different worker processes, at worker counts 1
/// and 16; the fingerprints (complete op traces incl. paths, sizes, results and simulated
/// times; captured output; exit kinds; the final world of every host; the run report)
/// must be identical. Exit 0 = deterministic, 2 = divergence.
pub fn selftest(checks: &[Box<dyn DynCheck>], count: u64, seed: u64, only: Option<&str>) -> i32 {
    let exe = std::env::current_exe().expect("current_exe");
    let mut bad = 0u64;
    let mut total = 0u64;
    for c in checks {
        if let Some(o) = only {
            if o != c.id() {
                continue;
            }
        }
        let run = |nshards: u64| -> BTreeMap<u64, u64> {
            let mut kids = Vec::new();
            for sh in 0..nshards {
                kids.push(
                    std::process::Command::new(&exe)
                        .args(["selftest-worker", c.id(), &seed.to_string(), &sh.to_string(), &nshards.to_string(), &count.to_string()])
                        .stdout(std::process::Stdio::piped())
                        .stderr(std::process::Stdio::null())
                        .spawn()
                        .expect("spawn"),
                );
            }
            let mut m = BTreeMap::new();
            for k in kids {
                let o = k.wait_with_output().expect("wait");
                for l in String::from_utf8_lossy(&o.stdout).lines() {
                    let p: Vec<&str> = l.split(' ').collect();
                    if p.len() == 3 && p[0] == "FP" {
                        if let (Ok(i), Ok(f)) = (p[1].parse::<u64>(), p[2].parse::<u64>()) {
                            m.insert(i, f);
                        }
                    }
                }
            }
            m
        };
        let a = run(1);
        let b = run(16);
        let mut diverged = Vec::new();
        for i in 0..count {
            total += 1;
            if a.get(&i).is_none() || a.get(&i) != b.get(&i) {
                diverged.push(i);
            }
        }
        println!("selftest {}: {} run indices x 2 executions (1 worker vs 16 workers): {} divergent", c.id(), count, diverged.len());
        if !diverged.is_empty() {
            println!("  divergent run indices: {:?}", &diverged[..diverged.len().min(10)]);
            bad += diverged.len() as u64;
        }
    }
    println!("selftest: {total} run indices compared, {bad} divergent");
    if bad == 0 {
        0
    } else {
        2
    }
}
