//! simcheck — deterministic simulation checks for paiml/copia (see /verif/DESIGN.md).

#[global_allocator]
static ALLOC: copia_simworld::alloc::Monitor = copia_simworld::alloc::Monitor;

include!(concat!(env!("OUT_DIR"), "/copia_main_include.rs"));

mod calib;
mod checks;
mod common;
mod framework;
mod gen;
mod stubs;

use framework::*;

fn all_checks() -> Vec<Box<dyn DynCheck>> {
    vec![
        Box::new(Erased(checks::c01::C01)),
        Box::new(Erased(checks::c02::C02)),
        Box::new(Erased(checks::c03::C03)),
        Box::new(Erased(checks::c04::C04)),
        Box::new(Erased(checks::c04::C14)),
        Box::new(Erased(checks::c04::C15)),
        Box::new(Erased(checks::c05::C05)),
        Box::new(Erased(checks::c02::C06)),
        Box::new(Erased(checks::c05::C20)),
        Box::new(Erased(checks::c07::C07)),
        Box::new(Erased(checks::c08::C08)),
        Box::new(Erased(checks::c09::C09)),
        Box::new(Erased(checks::c10::C10)),
        Box::new(Erased(checks::c11::C11)),
        Box::new(Erased(checks::c11::C12)),
        Box::new(Erased(checks::c13::C13)),
    ]
}

fn usage() -> i32 {
    eprintln!("usage: simcheck check <ID> <quick|thorough> [--runs N] [--workers N] [--no-evidence]\n       simcheck replay <file> [--quiet]\n       simcheck list");
    2
}

fn main() {
    copia_simworld::kernel::init();
    let args: Vec<String> = std::env::args().collect();
    let code = real_main(&args);
    std::process::exit(code);
}

fn parse_tier(s: &str) -> Option<Tier> {
    match s {
        "quick" => Some(Tier::Quick),
        "thorough" => Some(Tier::Thorough),
        _ => None,
    }
}

fn real_main(args: &[String]) -> i32 {
    let checks = all_checks();
    match args.get(1).map(String::as_str) {
        Some("list") => {
            for c in &checks {
                println!("{}", c.id());
            }
            0
        }
        Some("check") => {
            let (Some(id), Some(tier)) = (args.get(2), args.get(3).and_then(|s| parse_tier(s))) else {
                return usage();
            };
            let Some(c) = checks.iter().find(|c| c.id() == id) else {
                eprintln!("unknown check {id}");
                return 2;
            };
            let mut cfg = SuperCfg {
                tier,
                seed: env_seed(),
                workers: std::thread::available_parallelism().map(|n| n.get() as u64).unwrap_or(8).min(16),
                runs_override: None,
                wall_cap_s: if tier == Tier::Quick { 150.0 } else { 3000.0 },
                write_evidence: true,
            };
            let mut i = 4;
            while i < args.len() {
                match args[i].as_str() {
                    "--runs" => {
                        cfg.runs_override = args.get(i + 1).and_then(|s| s.parse().ok());
                        i += 2;
                    }
                    "--workers" => {
                        cfg.workers = args.get(i + 1).and_then(|s| s.parse().ok()).unwrap_or(cfg.workers);
                        i += 2;
                    }
                    "--wall" => {
                        cfg.wall_cap_s = args.get(i + 1).and_then(|s| s.parse().ok()).unwrap_or(cfg.wall_cap_s);
                        i += 2;
                    }
                    "--no-evidence" => {
                        cfg.write_evidence = false;
                        i += 1;
                    }
                    _ => return usage(),
                }
            }
            supervise(c.as_ref(), &cfg)
        }
        Some("worker") => {
            // worker <ID> <tier> <seed> <shard> <nshards> <total> <wallcap> <tmpdir>
            if args.len() < 10 {
                return usage();
            }
            let Some(c) = checks.iter().find(|c| c.id() == args[2]) else {
                return 2;
            };
            let tier = parse_tier(&args[3]).unwrap_or(Tier::Quick);
            let seed: u64 = args[4].parse().unwrap_or(DEFAULT_SEED);
            let shard: u64 = args[5].parse().unwrap_or(0);
            let n: u64 = args[6].parse().unwrap_or(1);
            let total: u64 = args[7].parse().unwrap_or(0);
            let wall: f64 = args[8].parse().unwrap_or(100.0);
            let tmp = std::path::PathBuf::from(&args[9]);
            let s = worker(c.as_ref(), tier, seed, shard, n, total, wall, &tmp);
            println!("SUMMARY {}", serde_json::to_string(&s).unwrap_or_default());
            0
        }
        Some("smoke") => common::smoke(args.get(2).map(String::as_str).unwrap_or("local")),
        Some("selftest-worker") => {
            if args.len() < 7 {
                return usage();
            }
            let Some(c) = checks.iter().find(|c| c.id() == args[2]) else { return 2 };
            selftest_worker(
                c.as_ref(),
                args[3].parse().unwrap_or(DEFAULT_SEED),
                args[4].parse().unwrap_or(0),
                args[5].parse().unwrap_or(1),
                args[6].parse().unwrap_or(0),
            );
            0
        }
        Some("calib") => {
            let n: u64 = args.get(2).and_then(|s| s.parse().ok()).unwrap_or(300);
            let a = calib::calibrate(n, env_seed());
            let b = calib::calibrate_fs(n * 4, env_seed());
            a.max(b)
        }
        Some("selftest") => {
            let count: u64 = args.get(2).and_then(|s| s.parse().ok()).unwrap_or(500);
            let only = args.get(3).map(String::as_str);
            selftest(&checks, count, env_seed(), only)
        }
        Some("replay") => {
            let Some(f) = args.get(2) else { return usage() };
            let quiet = args.iter().any(|a| a == "--quiet");
            replay(&checks, f, quiet)
        }
        _ => usage(),
    }
}
