//! C08 — bisync is crash-safe; the record never runs ahead of the data.
//! Reference run, then the process is killed before its k-th mutating call for every k.

use super::bisync_common::*;
use super::c02::{exec_history, run_cfg};
use crate::common::*;
use crate::framework::*;
use crate::gen::fnv;
use copia_simworld::kernel::*;
use copia_simworld::rng::Rng;
use serde::{Deserialize, Serialize};
use serde_json::{json, Value};
use std::collections::BTreeMap;

pub struct C08;

#[derive(Clone, Debug, Serialize, Deserialize)]
pub struct Sc {
    pub hist: History,
    pub tail: Vec<Step>,
    pub cfg_seed: u64,
    /// None = every k; Some(k) = only this kill point
    pub only_k: Option<u32>,
    /// named scenario index (0..9) or 255 for a random history
    pub named: u8,
}

fn w(side: u8, p: u32, c: u32) -> Step {
    Step::Write { side, path: PathSel::Base(p), content: c }
}
fn d(side: u8, p: u32) -> Step {
    Step::Delete { side, path: PathSel::Base(p) }
}

/// The nine scenarios named by the property, as (history steps, tail steps).
fn named(i: u8) -> (Vec<Step>, Vec<Step>) {
    match i {
        // create on A
        0 => (vec![Step::Bisync], vec![w(0, 0, 1)]),
        // propagate A->B, B->A
        1 => (vec![w(0, 0, 1), Step::Bisync], vec![w(0, 0, 2)]),
        2 => (vec![w(0, 0, 1), Step::Bisync], vec![w(1, 0, 2)]),
        // delete either way
        3 => (vec![w(0, 0, 1), Step::Bisync], vec![d(0, 0)]),
        4 => (vec![w(0, 0, 1), Step::Bisync], vec![d(1, 0)]),
        // both-changed conflict
        5 => (vec![w(0, 0, 1), Step::Bisync], vec![w(0, 0, 2), w(1, 0, 3)]),
        // delete-vs-modify
        6 => (vec![w(0, 0, 1), Step::Bisync], vec![d(0, 0), w(1, 0, 2)]),
        // first run without archive
        7 => (vec![], vec![w(0, 0, 1), w(1, 1, 2), w(0, 2, 100)]),
        // several paths at once
        _ => (
            vec![w(0, 0, 1), w(0, 1, 2), w(1, 2, 3), w(0, 3, 101), Step::Bisync],
            vec![w(0, 0, 4), d(1, 1), w(1, 2, 5), w(0, 2, 6), w(1, 4, 7), d(0, 3)],
        ),
    }
}

fn staging_left(wd: &World) -> bool {
    tree_bytes(wd, HOST, ROOT_A).keys().chain(tree_bytes(wd, HOST, ROOT_B).keys()).any(|k| is_staging(k))
}

impl Check for C08 {
    type Sc = Sc;
    fn id(&self) -> &'static str {
        "C08"
    }
    fn level(&self) -> &'static str {
        "fault_enumeration"
    }
    fn rule(&self) -> String {
        "one run = one scenario (the nine named ones and seeded histories) x every kill point: an uninterrupted reference run counts N mutating calls (open-for-write, write, fsync, rename, unlink, mkdir, set-mtime) of the bisync process; for every k in 1..=N the pre-run world is restored and the process is killed immediately before its k-th such call; then up to 3 recovery runs. Non-trivial = N >= 4 and the plan has >= 1 action; distinct = hash of (reference trace shape, N)".into()
    }
    fn assumptions(&self) -> Vec<String> {
        vec![
            "a kill lands between system calls (one shim call = one libc call; fs::copy is expanded into open/read/write chunks)".into(),
            "durability is judged on the recorded call order (fsync after last write, rename before the archive's rename), not by a power-loss model".into(),
        ]
    }
    fn components(&self) -> Value {
        json!({"real": ["copia bisync incl. copy_atomic and Archive::save"], "simulated": ["file system", "process kill before the k-th mutating call", "env", "hostname"]})
    }
    fn runs(&self, tier: Tier) -> u64 {
        match tier {
            Tier::Quick => 1_000,
            Tier::Thorough => 60_000,
        }
    }
    fn generate(&self, seed: u64, _tier: Tier) -> Sc {
        let mut r = Rng::new(seed);
        let pick = r.below(20);
        if pick < 9 {
            let (hs, tail) = named(pick as u8);
            let mut hist = gen_history(&mut r, 3, false);
            hist.steps = hs;
            hist.npaths = 5;
            hist.ncontents = 8;
            hist.allow_clash = false;
            return Sc { hist, tail, cfg_seed: r.next_u64(), only_k: None, named: pick as u8 };
        }
        let mut hist = gen_history(&mut r, 8, false);
        hist.allow_clash = false;
        let mut tail = Vec::new();
        for _ in 0..r.urange(1, 5) {
            let side = r.below(2) as u8;
            let path = match r.below(4) {
                0 => PathSel::Existing(r.below(8) as u32),
                1 => PathSel::Conflict(r.below(3) as u32),
                _ => PathSel::Base(r.below(u64::from(hist.npaths)) as u32),
            };
            if r.below(3) == 0 {
                tail.push(Step::Delete { side, path });
            } else {
                let content = if r.below(5) == 0 { 100 + r.below(3) as u32 } else { r.below(u64::from(hist.ncontents)) as u32 }; // (102 = the empty file)
                tail.push(Step::Write { side, path, content });
            }
        }
        Sc { hist, tail, cfg_seed: r.next_u64(), only_k: None, named: 255 }
    }
    fn execute(&self, sc: &Sc) -> RunReport {
        let mut rep = RunReport::default();
        let h = &sc.hist;
        let mut last_l: Tree = Tree::new();
        let hr = match exec_history(h, sc.cfg_seed, false, 0, |_, rec, _, _| {
            if rec.kind == RunKind::Completed {
                last_l = rec.a1.iter().filter(|(p, c)| rec.b1.get(*p) == Some(*c)).map(|(p, c)| (p.clone(), c.clone())).collect();
            }
            Ok(())
        }) {
            Ok(x) => x,
            Err((o, c, dd)) => {
                rep.harness_error = Some(format!("history failed: {o} {c} {dd}"));
                return rep;
            }
        };
        rep.execs += hr.runs.len() as u64;
        let mut w0 = hr.final_world;
        for st in &sc.tail {
            apply_user_step(&mut w0, st, h, 0);
        }
        let a0 = strip_staging(&tree_bytes(&w0, HOST, ROOT_A));
        let b0 = strip_staging(&tree_bytes(&w0, HOST, ROOT_B));
        let afile = archive_file(ROOT_A, ROOT_B);
        let arc0 = w0.fs(HOST).get_file(&afile);
        let cfg = run_cfg(sc.cfg_seed ^ 0xC8);
        // --- reference run
        let refo = run_bisync(w0.clone(), cfg.clone(), ROOT_A, ROOT_B, &[], h.hostname_env);
        rep.execs += 1;
        rep.steps += refo.stats.steps;
        let kref = classify(&refo);
        if kref != RunKind::Completed {
            rep.probe("reference_run_not_completed", 1);
            return rep;
        }
        let n = refo.procs[0].count(OpClass::Mutating);
        let aref = strip_staging(&tree_bytes(&refo.world, HOST, ROOT_A));
        let bref = strip_staging(&tree_bytes(&refo.world, HOST, ROOT_B));
        let arcref = refo.world.fs(HOST).get_file(&afile);
        let planned = plan_line(&refo).map_or(0, |p| p.0);
        rep.nontrivial = n >= 4 && planned >= 1;
        rep.shape = fnv(&[refo.shape, u64::from(n)]);
        if planned > 0 {
            rep.probe("plan_with_actions", 1);
        }

        // --- (3) ordering over the recorded trace of the reference run
        let arc_rename_seq = refo
            .trace
            .iter()
            .filter(|r| r.kind == OpKind::Rename && r.ok && r.path2 == afile)
            .map(|r| r.seq)
            .last();
        if let Some(arc_seq) = arc_rename_seq {
            // files written during this run under A or B: group by inode
            let mut last_write: BTreeMap<u64, (u64, String)> = BTreeMap::new();
            let mut last_fsync: BTreeMap<u64, u64> = BTreeMap::new();
            let mut renamed_into: BTreeMap<u64, (u64, String)> = BTreeMap::new();
            for r in &refo.trace {
                let in_roots = under(&r.path, ROOT_A) || under(&r.path, ROOT_B);
                match r.kind {
                    OpKind::Write if r.ok && in_roots => {
                        last_write.insert(r.ino, (r.seq, r.path.clone()));
                    }
                    OpKind::Fsync if r.ok => {
                        last_fsync.insert(r.ino, r.seq);
                    }
                    OpKind::Rename if r.ok && (under(&r.path2, ROOT_A) || under(&r.path2, ROOT_B)) => {
                        renamed_into.insert(r.ino, (r.seq, r.path2.clone()));
                    }
                    _ => {}
                }
            }
            // every file published by a rename during the run — written to or not (an empty file has
            // no write call, but its existence still has to be flushed before it is recorded)
            let empty_marker = (0u64, String::from("(never written: an empty file)"));
            for (ino, (rseq, dst)) in &renamed_into {
                let (wseq, wpath) = last_write.get(ino).unwrap_or(&empty_marker);
                if !last_write.contains_key(ino) {
                    rep.probe("empty_file_published", 1);
                }
                if *rseq > arc_seq {
                    rep.fail("c08.record_after_data", "archive-renamed-before-data-renamed",
                        format!("{dst:?} renamed into place at step {rseq}, archive recorded at step {arc_seq}"));
                    break;
                }
                let synced = last_fsync.get(ino).map_or(false, |f| f > wseq && *f < arc_seq);
                if !synced {
                    rep.fail("c08.record_after_data", "data-not-fsynced-before-archive-recorded",
                        format!("file {dst:?} (staged as {wpath:?}) was last written at step {wseq} and never fsynced before the archive was renamed into place at step {arc_seq}"));
                    break;
                }
            }
            rep.probe("ordering_checked", 1);
        }
        if rep.violation.is_some() {
            return rep;
        }

        // --- kill sweep
        for k in 1..=n {
            if let Some(o) = sc.only_k {
                if o != k {
                    continue;
                }
            }
            let mut c = cfg.clone();
            c.faults.push(Fault::KillAtOp { target: ProcSel::Role("bisync".into()), nth: k, class: OpClass::Mutating });
            let out = run_bisync(w0.clone(), c, ROOT_A, ROOT_B, &[], h.hostname_env);
            rep.execs += 1;
            rep.steps += out.stats.steps;
            rep.fault("kill_before_mutating_call", out.stats.kills);
            if out.procs[0].exit != ExitKind::Killed {
                rep.harness_error = Some(format!("kill point {k}/{n} did not fire (exit {:?})", out.procs[0].exit));
                return rep;
            }
            let a1 = strip_staging(&tree_bytes(&out.world, HOST, ROOT_A));
            let b1 = strip_staging(&tree_bytes(&out.world, HOST, ROOT_B));
            // (1) only complete versions at non-staging paths
            for (side, t0, t1, tr) in [("A", &a0, &a1, &aref), ("B", &b0, &b1, &bref)] {
                let keys: std::collections::BTreeSet<&String> = t0.keys().chain(t1.keys()).chain(tr.keys()).collect();
                for p in keys {
                    let v = t1.get(p);
                    if v != t0.get(p) && v != tr.get(p) {
                        rep.fail("c08.atomic_paths", "partial-or-foreign-bytes-at-live-path",
                            format!("kill before mutating call {k}/{n}: side {side} path {p:?} holds {:?} bytes, neither its pre-run version ({:?}) nor the delivered one ({:?})",
                                v.map(Vec::len), t0.get(p).map(Vec::len), tr.get(p).map(Vec::len)));
                    }
                }
            }
            // (2) archive: old, absent, or new
            let arc1 = out.world.fs(HOST).get_file(&afile);
            if arc1 != arc0 && arc1.is_some() && arc1 != arcref {
                rep.fail("c08.archive_states", "archive-neither-old-nor-new",
                    format!("kill before mutating call {k}/{n}: archive holds {} bytes", arc1.as_ref().map_or(0, Vec::len)));
            }
            // new archive present => every path it describes is in place on both sides
            if arc1.is_some() && arc1 == arcref && arc1 != arc0 && (a1 != aref || b1 != bref) {
                rep.fail("c08.record_after_data", "archive-ahead-of-data",
                    format!("kill before mutating call {k}/{n}: the new archive is on disk but the trees are not yet in their final state"));
            }
            if rep.violation.is_some() {
                break;
            }
            // (4) recovery
            let mut wr = out.world;
            let mut last_kind = RunKind::Aborted;
            let mut tries = 0;
            let (ra0, rb0) = (a1.clone(), b1.clone());
            while tries < 3 {
                tries += 1;
                // the statement allows repeating a run that stopped on an I/O error caused by a
                // leftover staging file: i.e. one that existed when that run started
                let staging_at_start = staging_left(&wr);
                let o2 = run_bisync(wr, run_cfg(sc.cfg_seed ^ 0xEC ^ u64::from(k)), ROOT_A, ROOT_B, &[], h.hostname_env);
                rep.execs += 1;
                last_kind = classify(&o2);
                let again = last_kind == RunKind::Aborted && (staging_at_start || staging_left(&o2.world));
                if last_kind == RunKind::Crashed {
                    rep.fail("c08.recovery", "recovery-run-panicked", format!("k={k}: {:?}", o2.procs[0].exit));
                }
                wr = o2.world;
                if !again {
                    break;
                }
                rep.probe("recovery_repeated", 1);
            }
            if rep.violation.is_some() {
                break;
            }
            if last_kind != RunKind::Completed {
                rep.fail("c08.recovery", "recovery-does-not-complete", format!("kill before mutating call {k}/{n}: after {tries} recovery run(s) bisync still fails"));
                break;
            }
            let a2 = strip_staging(&tree_bytes(&wr, HOST, ROOT_A));
            let b2 = strip_staging(&tree_bytes(&wr, HOST, ROOT_B));
            // no version lost in the sense of C02 (L = last completed run before the crash)
            if let Some((cl, dd)) = lost_version(&ra0, &rb0, &a2, &b2, &last_l, RunKind::Completed) {
                rep.fail("c08.recovery", "version-lost-after-crash-recovery", format!("kill before mutating call {k}/{n}: [{cl}] {dd}"));
                break;
            }
            if a2 != aref || b2 != bref {
                let diff: Vec<&String> = aref.keys().chain(a2.keys()).chain(bref.keys()).chain(b2.keys())
                    .filter(|p| aref.get(*p) != a2.get(*p) || bref.get(*p) != b2.get(*p)).collect();
                rep.fail("c08.recovery", "recovery-differs-from-uninterrupted-run",
                    format!("kill before mutating call {k}/{n}: after recovery {:?} differ from the uninterrupted result", &diff[..diff.len().min(3)]));
                break;
            }
            if k > 1 && k < n {
                rep.probe("mid_run_kill_recovered", 1);
            }
        }
        rep
    }
    fn shrink(&self, sc: &Sc) -> Vec<Sc> {
        let mut out = Vec::new();
        if sc.only_k.is_none() {
            for k in 1..200u32 {
                out.push(Sc { only_k: Some(k), ..sc.clone() });
            }
        }
        for i in 0..sc.tail.len() {
            let mut t = sc.tail.clone();
            t.remove(i);
            out.push(Sc { tail: t, ..sc.clone() });
        }
        for hh in shrink_history(&sc.hist) {
            out.push(Sc { hist: hh, ..sc.clone() });
        }
        out
    }
    fn expected_probes(&self) -> Vec<&'static str> {
        vec!["plan_with_actions", "ordering_checked", "mid_run_kill_recovered"]
    }
}
