pub mod c01;
