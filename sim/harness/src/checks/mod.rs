pub mod bisync_common;
pub mod c01;
pub mod c02;
pub mod c07;
pub mod c08;
