//! C09 — one-way delivery is atomic under a crash at any point.

use super::sync_common::*;
use crate::common::*;
use crate::framework::*;
use crate::gen::fnv;
use copia_simworld::kernel::*;
use copia_simworld::rng::Rng;
use serde::{Deserialize, Serialize};
use serde_json::{json, Value};
use std::collections::BTreeSet;

pub struct C09;

#[derive(Clone, Debug, Serialize, Deserialize)]
pub struct Sc {
    pub sync: SyncSc,
    pub only_k: Option<u32>,
    pub max_points: u32,
}

impl Check for C09 {
    type Sc = Sc;
    fn id(&self) -> &'static str {
        "C09"
    }
    fn level(&self) -> &'static str {
        "fault_enumeration"
    }
    fn rule(&self) -> String {
        "one run = one C04-style scenario (files 0 B .. 600 KiB, i.e. several 256 KiB transfer chunks and larger than the pipe, all three directions, flags incl. --delete/--exclude/--jobs) x kill points: an uninterrupted reference run counts N = file-system-mutating calls + pipe writes of the copia process; for every k in 1..=N (all k when N <= max_points, else max_points seeded k; 60 quick / 300 thorough) the world is restored, copia is killed immediately before its k-th such call, every orphaned child (remote `cat > tmp && mv`, `xargs`, `find`) is scheduled to completion, the destination is inspected, and the same command is run again; at every third kill point also after planned source files were rewritten in place with other bytes of the same size (the re-run must deliver its own plan, nothing left in staging may leak in). Non-trivial = N >= 6 and at least one transfer; distinct = hash of (reference trace shape, N)".into()
    }
    fn assumptions(&self) -> Vec<String> {
        let mut a = super::c04::C04.assumptions();
        a.push("when the sender dies its ssh child sees EOF on stdin and the remote command runs to completion (as with real ssh)".into());
        a
    }
    fn components(&self) -> Value {
        json!({"real": ["copia sync -r"], "simulated": ["file systems", "pipes", "kill before the k-th mutating/pipe-write call of copia", "orphaned ssh/shell children running on", "task scheduling"]})
    }
    fn runs(&self, tier: Tier) -> u64 {
        match tier {
            Tier::Quick => 400,
            Tier::Thorough => 30_000,
        }
    }
    fn generate(&self, seed: u64, tier: Tier) -> Sc {
        let mut r = Rng::new(seed);
        let mut sync = gen_sync(&mut r, false);
        // make sure something is transferred
        if sync.files.is_empty() {
            sync.files.push(FileSpec { path: "only".into(), size: 70_000, tag: 1, mtime_s: 1_650_000_000, mtime_ns: 5, dst: DstState::Absent });
        }
        if r.coin() {
            sync.files[0].dst = *r.pick(&[DstState::Absent, DstState::DiffSize]);
            sync.files[0].size = *r.pick(&[0u32, 9, 70_000, 300_000, 600_000]);
            if sync.files[0].size > 100_000 {
                sync.pipe_cap = sync.pipe_cap.max(65536);
            }
        }
        // one scenario in eight: a push with --delete whose delete LIST can be cut anywhere — a
        // one-byte pipe makes every byte of the list a separate write, so every prefix of every
        // record is a possible last thing the remote `xargs` sees when the sender dies. The
        // destination holds a file that must stay ("a") next to one that must go ("a.b"): a record
        // cut after "…/a" names the file that must stay.
        if r.below(8) == 0 {
            sync.dir = 1;
            sync.delete = true;
            sync.excludes.clear();
            sync.pipe_cap = 1;
            for f in &mut sync.files {
                f.size = f.size.min(40);
            }
            let (keep, gone) = *r.pick(&[("a", "a.b"), ("a", "a b"), ("e", "e!"), ("target", "target.old"), ("sub/k", "sub/k2")]);
            sync.files.retain(|f| f.path != keep && f.path != gone && !f.path.starts_with(&format!("{keep}/")) && !f.path.starts_with(&format!("{gone}/")) && !(keep.starts_with("sub/") && f.path == "sub"));
            sync.extra_dst.retain(|(p, _)| p != keep && p != gone && !p.starts_with(&format!("{keep}/")) && !p.starts_with(&format!("{gone}/")) && !(keep.starts_with("sub/") && p == "sub"));
            sync.files.push(FileSpec { path: keep.into(), size: 12, tag: 7, mtime_s: 1_650_000_000, mtime_ns: 0, dst: DstState::SameSizeMtime });
            sync.extra_dst.push((gone.into(), 9));
            sync.dst_exists = true;
        }
        Sc { sync, only_k: None, max_points: if tier == Tier::Quick { 60 } else { 300 } }
    }
    fn execute(&self, s: &Sc) -> RunReport {
        let mut rep = RunReport::default();
        let sc = &s.sync;
        let w0 = build_world(sc);
        let (sh, dh) = (src_host(sc), dst_host(sc));
        let src0 = snap(&w0, sh, SRC_ROOT);
        let dst0 = snap(&w0, dh, DST_ROOT);
        let plan = ref_plan(&src0, &dst0, &sc.excludes, sc.delete);
        let cfg = run_cfg(sc, 0xC9);
        let refo = run_sync(w0.clone(), sc, cfg.clone(), false);
        rep.execs += 1;
        rep.steps += refo.stats.steps;
        let dir_name = ["local", "push", "pull"][sc.dir as usize];
        if refo.procs[0].exit != ExitKind::Code(0) {
            rep.probe("reference_run_failed", 1);
            return rep;
        }
        let n = refo.procs[0].count(OpClass::MutatingOrPipeWrite);
        let dref = snap(&refo.world, dh, DST_ROOT);
        rep.nontrivial = n >= 6 && !plan.transfer.is_empty();
        rep.shape = fnv(&[refo.shape, u64::from(n)]);
        rep.probe(&format!("scenario_{dir_name}"), 1);
        let mut ks: Vec<u32> = (1..=n).collect();
        if n > s.max_points {
            let mut r = Rng::new(sc.seed ^ 0x4B);
            r.shuffle(&mut ks);
            ks.truncate(s.max_points as usize);
            ks.sort_unstable();
        }
        for k in ks {
            if let Some(o) = s.only_k {
                if o != k {
                    continue;
                }
            }
            let mut c = cfg.clone();
            c.faults.push(Fault::KillAtOp { target: ProcSel::Role("sync".into()), nth: k, class: OpClass::MutatingOrPipeWrite });
            let out = run_sync(w0.clone(), sc, c, false);
            rep.execs += 1;
            rep.steps += out.stats.steps;
            rep.fault("kill_before_write_call", out.stats.kills);
            if out.procs[0].exit != ExitKind::Killed {
                rep.harness_error = Some(format!("kill point {k}/{n} did not fire: {:?}", out.procs[0].exit));
                return rep;
            }
            if out.deadlock || out.budget_exceeded {
                rep.fail("c09.orphans_finish", "orphaned-children-do-not-finish", format!("{dir_name}: kill {k}/{n}: deadlock={} budget={}", out.deadlock, out.budget_exceeded));
                return rep;
            }
            let orphans = out.procs.iter().skip(1).filter(|p| matches!(p.exit, ExitKind::Code(_))).count();
            if orphans > 0 {
                rep.probe("children_ran_to_completion", orphans as u64);
            }
            let d1 = snap(&out.world, dh, DST_ROOT);
            if snap(&out.world, sh, SRC_ROOT) != src0 {
                rep.fail("c09.source_untouched", "source-modified-by-interrupted-run", format!("{dir_name}: kill {k}/{n}"));
                return rep;
            }
            let keys: BTreeSet<&String> = dst0.keys().chain(d1.keys()).collect();
            for p in keys {
                if is_staging(p) {
                    continue;
                }
                let now = d1.get(p).map(|x| &x.0);
                let old = dst0.get(p).map(|x| &x.0);
                if now == old {
                    continue;
                }
                if plan.transfer.contains(p) {
                    if now == src0.get(p).map(|x| &x.0) {
                        rep.probe("file_delivered_before_kill", 1);
                        continue;
                    }
                    rep.fail("c09.atomic_delivery", "truncated-or-mixed-file-at-live-path", format!(
                        "{dir_name}: copia killed before write call {k}/{n}: destination {p:?} holds {:?} bytes — neither its previous content ({:?} bytes) nor the source file ({:?} bytes)",
                        now.map(Vec::len), old.map(Vec::len), src0.get(p).map(|x| x.0.len())));
                    return rep;
                }
                if plan.delete.contains(p) && now.is_none() {
                    continue;
                }
                rep.fail("c09.outside_plan_untouched", "file-outside-plan-changed-by-interrupted-run", format!("{dir_name}: kill {k}/{n}: {p:?}"));
                return rep;
            }
            // variant (every third kill point): the source is edited between the crash and the
            // re-run — planned files rewritten in place with other bytes of the SAME size, mtime kept
            // or moved on. The re-run must then deliver exactly its own plan (the C04 clause applied to
            // the state it starts from): whatever the interrupted run left in staging must not leak in.
            if (sc.seed ^ u64::from(k)) % 3 == 0 {
                let mut w2 = out.world.clone();
                let mut r = Rng::new(sc.seed ^ 0xED17 ^ u64::from(k));
                let mut edited = 0;
                for p in &plan.transfer {
                    let Some((b, m)) = src0.get(p) else { continue };
                    if b.is_empty() || r.below(3) == 0 {
                        continue;
                    }
                    let nb: Vec<u8> = b.iter().map(|x| x ^ 0x5A).collect();
                    let nm = if r.coin() { *m } else { m + 2_000_000_000 };
                    w2.host(sh).put_file(&format!("{SRC_ROOT}/{p}"), &nb, nm);
                    edited += 1;
                }
                if edited > 0 {
                    let src1 = snap(&w2, sh, SRC_ROOT);
                    let plan1 = ref_plan(&src1, &d1, &sc.excludes, sc.delete);
                    let again = run_sync(w2, sc, run_cfg(sc, 0xE5 ^ u64::from(k)), false);
                    rep.execs += 1;
                    rep.steps += again.stats.steps;
                    rep.probe("rerun_after_source_edit", 1);
                    if again.procs[0].exit == ExitKind::Code(0) {
                        let d2 = snap(&again.world, dh, DST_ROOT);
                        for (p, (sb, _)) in &src1 {
                            let got = d2.get(p).map(|x| &x.0);
                            let ok = if plan1.transfer.contains(p) {
                                got == Some(sb)
                            } else if plan1.skipped.contains(p) {
                                got == d1.get(p).map(|x| &x.0)
                            } else {
                                true
                            };
                            if !ok {
                                rep.fail("c09.rerun", "rerun-after-source-edit-delivers-stale-bytes", format!(
                                    "{dir_name}: kill {k}/{n}, then {p:?} rewritten in the source (same size): after the re-run (exit 0) the destination holds {:?} bytes that are {} the source's",
                                    got.map(Vec::len), if got == Some(sb) { "equal to" } else { "NOT" }));
                                return rep;
                            }
                        }
                    } else {
                        rep.probe("rerun_after_source_edit_failed", 1);
                    }
                }
            }
            // same command again: completes and matches the uninterrupted result
            let again = run_sync(out.world, sc, run_cfg(sc, 0xA6 ^ u64::from(k)), false);
            rep.execs += 1;
            rep.steps += again.stats.steps;
            if again.procs[0].exit != ExitKind::Code(0) {
                rep.fail("c09.rerun", "rerun-after-crash-fails", format!("{dir_name}: kill {k}/{n}: exit {:?}: {}", again.procs[0].exit, again.procs[0].err_str().lines().filter(|l| l.contains("FAILED") || l.contains("Error")).take(2).collect::<Vec<_>>().join(" | ")));
                return rep;
            }
            let d2 = snap(&again.world, dh, DST_ROOT);
            let keys: BTreeSet<&String> = dref.keys().chain(d2.keys()).collect();
            for p in keys {
                if is_staging(p) {
                    continue;
                }
                let (a, b) = (dref.get(p), d2.get(p));
                let same = match (a, b) {
                    (Some((x, mx)), Some((y, my))) => x == y && (mx / 1_000_000_000 == my / 1_000_000_000 || !plan.transfer.contains(p)),
                    (None, None) => true,
                    _ => false,
                };
                if !same {
                    rep.fail("c09.rerun", "rerun-differs-from-uninterrupted-run", format!("{dir_name}: kill {k}/{n}: {p:?}: uninterrupted {:?}, after crash+rerun {:?}", a.map(|x| (x.0.len(), x.1 / 1_000_000_000)), b.map(|x| (x.0.len(), x.1 / 1_000_000_000))));
                    return rep;
                }
            }
            rep.probe("kill_points_checked", 1);
        }
        rep
    }
    fn shrink(&self, s: &Sc) -> Vec<Sc> {
        let mut out = Vec::new();
        if s.only_k.is_none() {
            for k in 1..400u32 {
                out.push(Sc { only_k: Some(k), ..s.clone() });
            }
        }
        for x in shrink_sync(&s.sync) {
            out.push(Sc { sync: x, only_k: None, max_points: s.max_points });
        }
        out
    }
    fn expected_probes(&self) -> Vec<&'static str> {
        vec!["scenario_local", "scenario_push", "scenario_pull", "kill_points_checked", "children_ran_to_completion", "file_delivered_before_kill", "rerun_after_source_edit"]
    }
}
