//! C13 — hub-sync lands the local tree on the hub and skips what is already there.

use super::hub_common::{PolicySpec, HUB, ROOT};
use crate::common::*;
use crate::framework::*;
use crate::gen::fnv;
use copia_simworld::kernel::*;
use copia_simworld::rng::Rng;
use serde::{Deserialize, Serialize};
use serde_json::{json, Value};
use std::collections::BTreeMap;

pub struct C13;

#[derive(Clone, Debug, Serialize, Deserialize)]
pub struct Sc {
    pub seed: u64,
    /// initial hub tree: (path, content id)
    pub hub_init: Vec<(String, u32)>,
    /// per client: local tree (path, content id); via_ssh
    pub clients: Vec<(Vec<(String, u32)>, bool)>,
    /// rounds: each round lists the clients that run concurrently
    pub rounds: Vec<Vec<u32>>,
    pub policy: PolicySpec,
    pub pipe_cap: u32,
    /// ssh targets name the hub root through a path that contains a colon (`/srv/snap-12:30`,
    /// a symlink to the root): `host:root` must be split at the FIRST colon
    #[serde(default)]
    pub colon_root: bool,
}

const COLON_ROOT: &str = "/srv/snap-12:30";

// incl. siblings that sort differently as strings and as paths ("sub.txt" vs "sub/…": '.' < '/')
const NAMES: &[&str] = &["a.txt", "sub/b.bin", "sub.txt", "sp ace", "q'uote", "deep/er/c", "deep/er.x", "deep!", "d$x", "sub/a", "sub-1",
    // ordinary client files whose names merely START like the hub's private directory
    ".copiaignore", ".copia-notes/x", "docs/.copia"];

fn body(id: u32) -> Vec<u8> {
    let mut v = format!("[content {id}]").into_bytes();
    if id % 7 == 6 {
        v.extend(std::iter::repeat(b'Z').take(90_000));
    }
    v
}

fn local_root(i: usize, ssh: bool) -> (String, String) {
    if ssh {
        (format!("c{i}"), "/data/local".to_string())
    } else {
        (HUB.to_string(), format!("/data/c{i}"))
    }
}

fn build(sc: &Sc) -> World {
    let mut w = World::new();
    let t = w.clock_ns;
    w.host(HUB).mkdir_p(ROOT, t);
    w.host(HUB).mkdir_p("/home/hub", t);
    w.host(HUB).mkdir_p(crate::stubs::REMOTE_HOME, t);
    if sc.colon_root {
        let _ = w.host(HUB).symlink("/", ROOT, COLON_ROOT, t);
    }
    for (p, c) in &sc.hub_init {
        w.host(HUB).put_file(&format!("{ROOT}/{p}"), &body(*c), t);
    }
    for (i, (tree, ssh)) in sc.clients.iter().enumerate() {
        let (host, root) = local_root(i, *ssh);
        w.host(&host).mkdir_p(&root, t);
        w.host(&host).mkdir_p("/home/u", t);
        for (p, c) in tree {
            w.host(&host).put_file(&format!("{root}/{p}"), &body(*c), t);
        }
    }
    w
}

fn hub_visible(w: &World) -> Tree {
    tree_bytes(w, HUB, ROOT)
        .into_iter()
        .filter(|(k, _)| !super::hub_common::is_hub_private(k) && !is_staging(k))
        .collect()
}

struct ClientResult {
    exit: ExitKind,
    sent: u64,
    unchanged: u64,
    conflicts: u64,
    conflict_paths: Vec<String>,
    stderr: String,
}

fn parse_result(p: &ProcSummary) -> ClientResult {
    let out = p.out_str();
    let err = p.err_str();
    let mut r = ClientResult { exit: p.exit.clone(), sent: 0, unchanged: 0, conflicts: 0, conflict_paths: Vec::new(), stderr: err.clone() };
    for l in out.lines() {
        if let Some(rest) = l.strip_prefix("Hub push complete: ") {
            let nums: Vec<u64> = rest.split(|c: char| !c.is_ascii_digit()).filter(|s| !s.is_empty()).filter_map(|s| s.parse().ok()).collect();
            if nums.len() >= 3 {
                r.sent = nums[0];
                r.unchanged = nums[1];
                r.conflicts = nums[2];
            }
        }
    }
    for l in err.lines() {
        if let Some(rest) = l.trim_start().strip_prefix("CAS conflict (hub changed under us): ") {
            if let Some(idx) = rest.rfind(" — hub kept a conflict-copy") {
                r.conflict_paths.push(rest[..idx].to_string());
            }
        }
    }
    r
}

impl Check for C13 {
    type Sc = Sc;
    fn id(&self) -> &'static str {
        "C13"
    }
    fn level(&self) -> &'static str {
        "exploration"
    }
    fn rule(&self) -> String {
        "one run = a history of 1..4 rounds over 1..3 clients, each with its own local tree of 1..4 files on a shared name universe (so they collide), against one hub; a round runs one real `copia hub-sync LOCAL TARGET` or two concurrently (seeded interleaving of both clients, their spawned real `serve` processes and, for `host:root` targets, the ssh/shell stand-in); each solo run is followed by an immediate second run. Non-trivial = a round with two overlapping clients in which a CAS conflict was reported, or a solo run that sent >= 1 file; distinct = hash of the interleaved trace shapes".into()
    }
    fn assumptions(&self) -> Vec<String> {
        vec![
            "ssh is a reliable ordered byte stream to a remote bash running `copia serve <root>`; roots without whitespace".into(),
            "acknowledgements are read from hub-sync's own report (sent / unchanged / conflict lines)".into(),
        ]
    }
    fn components(&self) -> Value {
        json!({"real": ["copia hub-sync (hub.rs)", "copia serve spawned by it", "wire.rs"], "simulated": ["file systems of hub and client hosts", "pipes", "process spawn", "ssh + remote shell stub", "scheduling"]})
    }
    fn runs(&self, tier: Tier) -> u64 {
        match tier {
            Tier::Quick => 3_000,
            Tier::Thorough => 400_000,
        }
    }
    fn generate(&self, seed: u64, _tier: Tier) -> Sc {
        let mut r = Rng::new(seed);
        let k = r.urange(1, 3);
        // a few "hot" names per scenario, so that clients (and the hub's initial tree) collide on
        // the same paths often even though the name universe is wide
        let hot: Vec<&str> = (0..3).map(|_| *r.pick(NAMES)).collect();
        let mut name = |r: &mut Rng| -> String {
            if r.below(3) < 2 {
                (*r.pick(&hot)).to_string()
            } else {
                (*r.pick(NAMES)).to_string()
            }
        };
        let mut clients = Vec::new();
        for _ in 0..k {
            let mut tree = BTreeMap::new();
            for _ in 0..r.urange(1, 5) {
                let n = name(&mut r);
                tree.insert(n, r.below(8) as u32);
            }
            clients.push((tree.into_iter().collect(), r.below(3) == 0));
        }
        let mut hub_init = BTreeMap::new();
        for _ in 0..r.urange(0, 3) {
            let n = name(&mut r);
            hub_init.insert(n, r.below(8) as u32);
        }
        if r.coin() {
            hub_init.insert("hub-only/keep".to_string(), 99);
        }
        let mut rounds = Vec::new();
        for _ in 0..r.urange(1, 4) {
            if k >= 2 && r.below(2) == 0 {
                let a = r.below(k as u64) as u32;
                let mut b = r.below(k as u64) as u32;
                if b == a {
                    b = (a + 1) % k as u32;
                }
                rounds.push(vec![a, b]);
            } else {
                rounds.push(vec![r.below(k as u64) as u32]);
            }
        }
        Sc {
            seed: r.next_u64(),
            hub_init: hub_init.into_iter().collect(),
            clients,
            rounds,
            policy: PolicySpec::random(&mut r),
            pipe_cap: *r.pick(&[4096u32, 65536, 1 << 20]),
            colon_root: r.below(5) == 0,
        }
    }
    fn execute(&self, sc: &Sc) -> RunReport {
        let mut rep = RunReport::default();
        let mut w = build(sc);
        let mut shape = 0u64;
        for (ri, round) in sc.rounds.iter().enumerate() {
            let hub_before = hub_visible(&w);
            let mut cfg = RunCfg::default();
            cfg.seed = sc.seed ^ (ri as u64 * 7919);
            cfg.policy = sc.policy.to_policy();
            cfg.pipe_cap = sc.pipe_cap as usize;
            cfg.short_read_pct = 10;
            cfg.op_budget = 600_000;
            let sim = Sim::new(w, cfg, resolver());
            for &ci in round {
                let (_, ssh) = &sc.clients[ci as usize];
                let (host, root) = local_root(ci as usize, *ssh);
                let target = if *ssh { format!("{HUB}:{}", if sc.colon_root { COLON_ROOT } else { ROOT }) } else { ROOT.to_string() };
                sim.spawn(top(&format!("hubsync{ci}"), &host, &sv(&["copia", "hub-sync", &root, &target]), env_of(&[("HOME", "/home/u")])));
            }
            let out = sim.run();
            rep.execs += 1;
            rep.steps += out.stats.steps;
            shape = fnv(&[shape, out.shape]);
            if out.deadlock || out.budget_exceeded {
                rep.fail("c13.progress", "hub-sync-deadlock-or-spin", format!("round {ri}: deadlock={} budget={}", out.deadlock, out.budget_exceeded));
                return rep;
            }
            for p in &out.procs {
                if let ExitKind::Aborted(m) = &p.exit {
                    rep.fail("c13.no_crash", "process-panicked", format!("{}: {m}", p.role));
                    return rep;
                }
            }
            let hub_after = hub_visible(&out.world);
            let results: Vec<(u32, ClientResult)> = round
                .iter()
                .map(|&ci| (ci, parse_result(out.proc_by_role(&format!("hubsync{ci}")).expect("client proc"))))
                .collect();
            // local trees never change
            for &ci in round {
                let (tree, ssh) = &sc.clients[ci as usize];
                let (host, root) = local_root(ci as usize, *ssh);
                let now = tree_bytes(&out.world, &host, &root);
                let want: Tree = tree.iter().map(|(p, c)| (p.clone(), body(*c))).collect();
                if now != want {
                    rep.fail("c13.local_untouched", "local-tree-modified", format!("client {ci}"));
                    return rep;
                }
            }
            let overlapped = round.len() > 1;
            for (ci, res) in &results {
                let (tree, _) = &sc.clients[*ci as usize];
                let local: Tree = tree.iter().map(|(p, c)| (p.clone(), body(*c))).collect();
                // every local file retrievable: at its path or as its conflict-copy
                for (p, b) in &local {
                    let at_path = hub_after.get(p) == Some(b);
                    let cname = format!("{p}.conflict-{}", short_hex(&b3(b)));
                    let at_conflict = hub_after.get(&cname) == Some(b);
                    if res.exit == ExitKind::Code(0) && !overlapped && !at_path {
                        rep.fail("c13.landed", "exit-0-but-file-not-on-hub", format!("round {ri} client {ci}: {p:?} (hub has {:?})", hub_after.get(p).map(|x| short_hex(&b3(x)))));
                        return rep;
                    }
                    // "non-zero because the hub changed underneath it": the run reported its totals, or
                    // reported a lost CAS, or the hub holds a conflict-copy of one of its files
                    let lost_a_cas = !res.conflict_paths.is_empty()
                        || local.iter().any(|(q, c)| hub_after.get(&format!("{q}.conflict-{}", short_hex(&b3(c)))) == Some(c));
                    if matches!(res.exit, ExitKind::Code(_)) && !at_path && !at_conflict && (res.sent + res.unchanged + res.conflicts > 0 || lost_a_cas) {
                        // another client's later acknowledged commit may have replaced it
                        let replaced_by_other = overlapped && results.iter().any(|(cj, _)| cj != ci && sc.clients[*cj as usize].0.iter().any(|(q, c2)| q == p && hub_after.get(p) == Some(&body(*c2))));
                        if !replaced_by_other {
                            rep.fail("c13.retrievable", "local-file-not-retrievable-from-hub", format!("round {ri} client {ci} (exit {:?}): {p:?} is neither at its path nor at {cname:?}", res.exit));
                            return rep;
                        }
                    }
                }
                if res.conflicts > 0 {
                    rep.probe("cas_conflict_reported", res.conflicts);
                    if res.exit == ExitKind::Code(0) {
                        rep.fail("c13.exit_status", "conflict-reported-but-exit-0", format!("round {ri} client {ci}"));
                        return rep;
                    }
                }
                if res.sent > 0 {
                    rep.probe("files_sent", res.sent);
                }
                if res.unchanged > 0 {
                    rep.probe("files_skipped_unchanged", res.unchanged);
                }
            }
            // hub paths outside every running client's name set are untouched; a path inside holds
            // its previous content, or the bytes of one of the running clients for that path
            for (p, b) in &hub_before {
                let owners: Vec<&(Vec<(String, u32)>, bool)> = round.iter().map(|&ci| &sc.clients[ci as usize]).filter(|(t, _)| t.iter().any(|(q, _)| q == p)).collect();
                if owners.is_empty() && hub_after.get(p) != Some(b) {
                    rep.fail("c13.others_untouched", "hub-file-at-other-path-changed", format!("round {ri}: {p:?}"));
                    return rep;
                }
            }
            for (p, b) in &hub_after {
                if hub_before.get(p) == Some(b) {
                    continue;
                }
                let base = p.split(".conflict-").next().unwrap_or(p);
                let legit = round.iter().any(|&ci| sc.clients[ci as usize].0.iter().any(|(q, c)| q == base && &body(*c) == b));
                if !legit {
                    rep.fail("c13.verified_content", "hub-holds-bytes-of-no-client", format!("round {ri}: {p:?} holds {} bytes (blake3 {})", b.len(), short_hex(&b3(b))));
                    return rep;
                }
            }
            // nothing another client committed has been overwritten: with two overlapping clients
            // on the same path and different bytes, if exactly one reported a conflict for it the
            // other's bytes must be live
            if overlapped {
                let (c0, r0) = &results[0];
                let (c1, r1) = &results[1];
                for (p, x) in &sc.clients[*c0 as usize].0 {
                    if let Some((_, y)) = sc.clients[*c1 as usize].0.iter().find(|(q, _)| q == p) {
                        if x != y {
                            rep.probe("overlap_same_path_different_bytes", 1);
                            let k0 = r0.conflict_paths.contains(p);
                            let k1 = r1.conflict_paths.contains(p);
                            let live = hub_after.get(p);
                            if matches!(r0.exit, ExitKind::Code(_)) && matches!(r1.exit, ExitKind::Code(_)) {
                                if k0 && !k1 && live != Some(&body(*y)) && hub_before.get(p) != Some(&body(*y)) {
                                    rep.fail("c13.no_lost_commit", "acknowledged-commit-overwritten", format!("round {ri}: {p:?}: client {c0} lost the CAS, client {c1} did not, but the live file is not client {c1}'s"));
                                    return rep;
                                }
                                if k1 && !k0 && live != Some(&body(*x)) && hub_before.get(p) != Some(&body(*x)) {
                                    rep.fail("c13.no_lost_commit", "acknowledged-commit-overwritten", format!("round {ri}: {p:?}: client {c1} lost the CAS, client {c0} did not, but the live file is not client {c0}'s"));
                                    return rep;
                                }
                            }
                        }
                    }
                }
                // Lost update through a stale listing: if both clients were acknowledged a commit
                // of DIFFERENT bytes at the same path, the later committer must have listed the
                // hub after the earlier commit (hub-sync lists once, at the start). Decided on the
                // trace: each spawned serve's listing walk vs. its rename into the path.
                for (p, x) in &sc.clients[*c0 as usize].0 {
                    let Some((_, y)) = sc.clients[*c1 as usize].0.iter().find(|(q, _)| q == p) else { continue };
                    if x == y || r0.conflict_paths.contains(p) || r1.conflict_paths.contains(p) {
                        continue;
                    }
                    // (whatever the exit status: a run that exits non-zero because the hub changed
                    // underneath it must not have overwritten what the other client committed)
                    if !(matches!(r0.exit, ExitKind::Code(_)) && matches!(r1.exit, ExitKind::Code(_))) {
                        continue;
                    }
                    let full = format!("{ROOT}/{p}");
                    // per serve process: (first readdir of ROOT = its listing, rename into `full`)
                    let mut ev: Vec<(Pid, u64, u64)> = Vec::new();
                    for pr in out.procs.iter().filter(|q| q.argv.iter().any(|a| a == "serve") && q.host == HUB) {
                        let list = out.trace.iter().find(|r| r.pid == pr.pid && r.kind == OpKind::Readdir && r.path == ROOT).map(|r| r.seq);
                        let ren = out.trace.iter().find(|r| r.pid == pr.pid && r.kind == OpKind::Rename && r.ok && r.path2 == full).map(|r| r.seq);
                        if let (Some(l), Some(rn)) = (list, ren) {
                            ev.push((pr.pid, l, rn));
                        }
                    }
                    if ev.len() == 2 {
                        let (first, second) = if ev[0].2 < ev[1].2 { (ev[0], ev[1]) } else { (ev[1], ev[0]) };
                        if second.1 < first.2 {
                            rep.fail("c13.no_lost_commit", "both-clients-committed-on-the-same-stale-listing",
                                format!("round {ri}: {p:?}: both clients were acknowledged a commit of different bytes, but the later committer (serve pid {}) listed the hub at step {} — before the earlier commit at step {} — so its `expected` was stale and the earlier commit was silently overwritten", second.0, second.1, first.2));
                            return rep;
                        }
                        rep.probe("sequential_commits_same_path", 1);
                    }
                }
                rep.nontrivial |= results.iter().any(|(_, r)| r.conflicts > 0);
            }
            w = out.world;
            // immediate second run of a solo client: sends nothing
            if !overlapped && results[0].1.exit == ExitKind::Code(0) {
                if results[0].1.sent > 0 {
                    rep.nontrivial = true;
                }
                let ci = round[0];
                let (_, ssh) = &sc.clients[ci as usize];
                let (host, root) = local_root(ci as usize, *ssh);
                let target = if *ssh { format!("{HUB}:{}", if sc.colon_root { COLON_ROOT } else { ROOT }) } else { ROOT.to_string() };
                let mut cfg = RunCfg::default();
                cfg.seed = sc.seed ^ 0x5EC0;
                cfg.pipe_cap = sc.pipe_cap as usize;
                let out2 = run_one(w, cfg, &format!("hubsync{ci}"), &host, &sv(&["copia", "hub-sync", &root, &target]), env_of(&[("HOME", "/home/u")]));
                rep.execs += 1;
                let r2 = parse_result(&out2.procs[0]);
                if r2.exit != ExitKind::Code(0) || r2.sent != 0 || r2.conflicts != 0 {
                    rep.fail("c13.second_run_skips", "second-run-sends-again", format!("round {ri} client {ci}: exit {:?}, {} sent, {} conflicts; stderr {}", r2.exit, r2.sent, r2.conflicts, r2.stderr));
                    return rep;
                }
                let writes: Vec<String> = out2.trace.iter().filter(|r| r.host == HUB && r.mutating && r.effect && r.path.starts_with(ROOT) && !r.path.starts_with(&format!("{ROOT}/.copia"))).map(|r| format!("{:?} {}", r.kind, r.path)).collect();
                if !writes.is_empty() {
                    rep.fail("c13.second_run_skips", "second-run-writes-to-hub", format!("{:?}", &writes[..writes.len().min(3)]));
                    return rep;
                }
                if hub_visible(&out2.world) != hub_after {
                    rep.fail("c13.second_run_skips", "second-run-changes-hub", String::new());
                    return rep;
                }
                rep.probe("second_run_checked", 1);
                w = out2.world;
            }
        }
        rep.shape = shape;
        rep
    }
    fn shrink(&self, sc: &Sc) -> Vec<Sc> {
        let mut out = Vec::new();
        for i in 0..sc.rounds.len() {
            let mut s = sc.clone();
            s.rounds.remove(i);
            if !s.rounds.is_empty() {
                out.push(s);
            }
        }
        for i in 0..sc.clients.len() {
            for j in 0..sc.clients[i].0.len() {
                let mut s = sc.clone();
                s.clients[i].0.remove(j);
                out.push(s);
            }
        }
        for i in 0..sc.hub_init.len() {
            let mut s = sc.clone();
            s.hub_init.remove(i);
            out.push(s);
        }
        for i in 0..sc.clients.len() {
            if sc.clients[i].1 {
                let mut s = sc.clone();
                s.clients[i].1 = false;
                out.push(s);
            }
        }
        out
    }
    fn expected_probes(&self) -> Vec<&'static str> {
        vec!["cas_conflict_reported", "files_sent", "files_skipped_unchanged", "second_run_checked", "overlap_same_path_different_bytes"]
    }
}
