//! C07 — a lost, damaged or foreign archive never causes a delete.
//! For each sampled reachable state, every archive fault of the catalogue is applied to a
//! clone of the world and the real `bisync` is run.

use super::bisync_common::*;
use super::c02::{exec_history, exec_history_named, run_cfg};
use crate::common::*;
use crate::framework::*;
use crate::gen::fnv;
use copia_simworld::kernel::*;
use copia_simworld::rng::Rng;
use serde::{Deserialize, Serialize};
use serde_json::{json, Value};

pub struct C07;

#[derive(Clone, Debug, Serialize, Deserialize)]
pub struct Sc {
    pub hist: History,
    /// user edits after the last completed run (the dangerous part: deletes and changes)
    pub tail: Vec<Step>,
    pub cfg_seed: u64,
    /// None = the whole catalogue; Some(i) = only variant i (set by the minimiser)
    pub only: Option<u32>,
    pub all_truncations: bool,
}

#[derive(Clone, Debug)]
enum ArcFault {
    Absent,
    Bytes(Vec<u8>, &'static str),
    OnlyBakTmp,
}

fn variants(orig: &[u8], foreign: &[u8], all_trunc: bool, seed: u64) -> Vec<(String, ArcFault)> {
    let mut v: Vec<(String, ArcFault)> = Vec::new();
    v.push(("absent".into(), ArcFault::Absent));
    v.push(("zero-length".into(), ArcFault::Bytes(Vec::new(), "zero")));
    let n = orig.len();
    if n > 0 {
        let mut r = Rng::new(seed);
        let points: Vec<usize> = if all_trunc || n <= 160 {
            (1..n).collect()
        } else {
            let mut p: Vec<usize> = (0..48).map(|_| 1 + r.usize_below(n - 1)).collect();
            p.extend([1, 2, n / 2, n - 2, n - 1]);
            p.sort_unstable();
            p.dedup();
            p
        };
        for k in points {
            v.push((format!("truncated@{k}"), ArcFault::Bytes(orig[..k].to_vec(), "trunc")));
        }
        for len in [1usize, 7, 64, 4096] {
            v.push((format!("garbage{len}"), ArcFault::Bytes(r.bytes(len), "garbage")));
        }
        // bit flips that break JSON structure
        for _ in 0..4 {
            let mut b = orig.to_vec();
            let i = r.usize_below(n);
            b[i] = b'}';
            // only a fault if it really makes the file unparsable (a '}' inside a string is not)
            if serde_json::from_slice::<Value>(&b).is_err() {
                v.push((format!("structure-byte@{i}"), ArcFault::Bytes(b, "garbage")));
            }
        }
    }
    for (name, text) in [
        ("json-array", "[1,2,3]"),
        ("json-null", "null"),
        ("json-empty-object", "{}"),
        ("json-wrong-types", r#"{"format_version":"1","root_pair_hash":7,"epoch":"x","host_id":null,"entries":[]}"#),
        ("json-missing-entries", r#"{"format_version":1,"root_pair_hash":"PAIR","epoch":3,"host_id":"h"}"#),
    ] {
        let t = text.replace("PAIR", &pair_hash(ROOT_A, ROOT_B));
        v.push((name.into(), ArcFault::Bytes(t.into_bytes(), "shape")));
    }
    if let Ok(val) = serde_json::from_slice::<Value>(orig) {
        for fv in [0u64, 2, u64::from(u32::MAX)] {
            let mut x = val.clone();
            x["format_version"] = json!(fv);
            v.push((format!("format_version={fv}"), ArcFault::Bytes(serde_json::to_vec_pretty(&x).unwrap(), "version")));
        }
        // our own entries under another pair's identity (e.g. the (B,A) archive copied in)
        let mut x = val.clone();
        x["root_pair_hash"] = json!(pair_hash(ROOT_B, ROOT_A));
        v.push(("own-entries-other-pair-hash".into(), ArcFault::Bytes(serde_json::to_vec_pretty(&x).unwrap(), "foreign")));
    }
    if !foreign.is_empty() {
        v.push(("archive-of-another-pair".into(), ArcFault::Bytes(foreign.to_vec(), "foreign")));
    }
    v.push(("only-bak-and-tmp".into(), ArcFault::OnlyBakTmp));
    v
}

const LINK_A: &str = "/sim/current";
const ROOT_A2: &str = "/sim/A2";

impl C07 {
    fn symlink_variant(&self, sc: &Sc, rep: &mut RunReport) {
        let h = &sc.hist;
        let mut w0 = new_world();
        let t = w0.clock_ns;
        if w0.host(HOST).symlink("/", ROOT_A, LINK_A, t).is_err() {
            return;
        }
        let Ok(hr) = exec_history_named(h, sc.cfg_seed, false, 0, LINK_A, w0, |_, _, _, _| Ok(())) else { return };
        rep.execs += hr.runs.len() as u64;
        let mut w = hr.final_world;
        // (whatever key the program filed it under)
        if tree_bytes(&w, HOST, &format!("{HOME}/.copia/archive")).is_empty() {
            return; // no completed run through the link
        }
        // another directory: a subset of A's files, one of them changed
        let a_now = strip_staging(&tree_bytes(&w, HOST, ROOT_A));
        let t = w.clock_ns;
        w.host(HOST).mkdir_p(ROOT_A2, t);
        for (i, (p, c)) in a_now.iter().enumerate() {
            match i % 3 {
                0 => {}                                                        // missing in A2
                1 => w.host(HOST).put_file(&format!("{ROOT_A2}/{p}"), b"<other release>", t),
                _ => w.host(HOST).put_file(&format!("{ROOT_A2}/{p}"), c, t),
            }
        }
        let _ = w.host(HOST).unlink("/", LINK_A, t);
        if w.host(HOST).symlink("/", ROOT_A2, LINK_A, t).is_err() {
            return;
        }
        let a0 = strip_staging(&tree_bytes(&w, HOST, ROOT_A2));
        let b0 = strip_staging(&tree_bytes(&w, HOST, ROOT_B));
        let out = run_bisync(w, run_cfg(sc.cfg_seed ^ 0x51), LINK_A, ROOT_B, &[], h.hostname_env);
        rep.execs += 1;
        rep.fault("archive_foreign_via_repointed_symlink", 1);
        let k = classify(&out);
        let ctx = |m: String| format!("archive fault 'root symlink re-pointed to another directory': {m}");
        if k == RunKind::Crashed {
            rep.fail("c07.no_crash", "bisync-panicked-on-damaged-archive", ctx(format!("{:?}", out.procs[0].exit)));
            return;
        }
        if !out.procs[0].err_str().contains("SAFE no-base mode") {
            rep.fail("c07.safe_mode", "foreign-pair-archive-trusted", ctx("no `SAFE no-base mode` banner: the archive of the OLD pair of directories was trusted".into()));
            return;
        }
        let unl = unlinks_in_roots(&out.trace, &[ROOT_A2, ROOT_B]);
        if !unl.is_empty() {
            rep.fail("c07.no_unlink", "delete-without-trusted-archive", ctx(format!("unlinked {:?}", &unl[..unl.len().min(3)])));
            return;
        }
        let a1 = strip_staging(&tree_bytes(&out.world, HOST, ROOT_A2));
        let b1 = strip_staging(&tree_bytes(&out.world, HOST, ROOT_B));
        if let Some((_c, d)) = lost_version(&a0, &b0, &a1, &b1, &Tree::new(), k) {
            rep.fail("c07.versions_kept", "version-lost-with-damaged-archive", ctx(d));
        }
    }
}

impl C07 {
    /// The SAME two directories were once synchronised in the other order (`bisync B A`), so an
    /// archive of the mirrored pair exists and is arbitrarily stale; later a file it records was
    /// deleted on both sides (under `bisync A B`) and re-created on one. When the (A,B) archive is
    /// then lost or damaged, nothing may be deleted — the mirrored pair's record is not a base.
    fn mirrored_variant(&self, sc: &Sc, rep: &mut RunReport) {
        let h = &sc.hist;
        let Ok(hr) = exec_history(h, sc.cfg_seed, true, 0, |_, _, _, _| Ok(())) else { return };
        rep.execs += hr.runs.len() as u64;
        let mut w = hr.final_world;
        if w.fs(HOST).get_file(&archive_file(ROOT_B, ROOT_A)).is_none() {
            return;
        }
        let a = strip_staging(&tree_bytes(&w, HOST, ROOT_A));
        let b = strip_staging(&tree_bytes(&w, HOST, ROOT_B));
        let victims: Vec<(String, Vec<u8>)> = a.iter().filter(|(p, c)| b.get(*p) == Some(*c)).take(2).map(|(p, c)| (p.clone(), c.clone())).collect();
        if victims.is_empty() {
            return;
        }
        for (p, _) in &victims {
            w.host(HOST).remove_file(&format!("{ROOT_A}/{p}"));
            w.host(HOST).remove_file(&format!("{ROOT_B}/{p}"));
        }
        let o1 = run_bisync(w, run_cfg(sc.cfg_seed ^ 0x31), ROOT_A, ROOT_B, &[], h.hostname_env);
        rep.execs += 1;
        if classify(&o1) != RunKind::Completed {
            return;
        }
        let mut w = o1.world;
        let t = w.clock_ns + 5_000_000_000;
        for (i, (p, c)) in victims.iter().enumerate() {
            let root = if (sc.cfg_seed >> 8).wrapping_add(i as u64) % 2 == 0 { ROOT_A } else { ROOT_B };
            w.host(HOST).put_file(&format!("{root}/{p}"), c, t);
        }
        let afile = archive_file(ROOT_A, ROOT_B);
        let Some(orig) = w.fs(HOST).get_file(&afile) else { return };
        let a0 = strip_staging(&tree_bytes(&w, HOST, ROOT_A));
        let b0 = strip_staging(&tree_bytes(&w, HOST, ROOT_B));
        for (vi, name) in ["absent", "zero-length", "garbage", "only-bak-and-tmp"].iter().enumerate() {
            let mut wv = w.clone();
            let t = wv.clock_ns;
            match vi {
                0 => {
                    wv.host(HOST).remove_file(&afile);
                }
                1 => wv.host(HOST).put_file(&afile, b"", t),
                2 => wv.host(HOST).put_file(&afile, b"\x00\x01not json at all", t),
                _ => {
                    wv.host(HOST).remove_file(&afile);
                    wv.host(HOST).put_file(&format!("{afile}.bak"), &orig, t);
                    wv.host(HOST).put_file(&format!("{afile}.tmp"), &orig, t);
                }
            }
            rep.fault("archive_fault_with_mirrored_pair_archive_present", 1);
            let out = run_bisync(wv, run_cfg(sc.cfg_seed ^ 0x32 ^ (vi as u64)), ROOT_A, ROOT_B, &[], h.hostname_env);
            rep.execs += 1;
            let k = classify(&out);
            let ctx = |m: String| format!("archive fault '{name}' while an archive of the mirrored pair (bisync B A) exists: {m}");
            if k == RunKind::Crashed {
                rep.fail("c07.no_crash", "bisync-panicked-on-damaged-archive", ctx(format!("{:?}", out.procs[0].exit)));
                return;
            }
            if !out.procs[0].err_str().contains("SAFE no-base mode") {
                rep.fail("c07.safe_mode", "mirrored-pair-archive-trusted", ctx("no `SAFE no-base mode` banner".into()));
                return;
            }
            let unl = unlinks_in_roots(&out.trace, &[ROOT_A, ROOT_B]);
            if !unl.is_empty() {
                rep.fail("c07.no_unlink", "delete-without-trusted-archive", ctx(format!("unlinked {:?}", &unl[..unl.len().min(3)])));
                return;
            }
            let a1 = strip_staging(&tree_bytes(&out.world, HOST, ROOT_A));
            let b1 = strip_staging(&tree_bytes(&out.world, HOST, ROOT_B));
            if let Some((_c, d)) = lost_version(&a0, &b0, &a1, &b1, &Tree::new(), k) {
                rep.fail("c07.versions_kept", "version-lost-with-damaged-archive", ctx(d));
                return;
            }
        }
    }
}

impl Check for C07 {
    type Sc = Sc;
    fn id(&self) -> &'static str {
        "C07"
    }
    fn level(&self) -> &'static str {
        "fault_enumeration"
    }
    fn rule(&self) -> String {
        "one run = one state reached by a seeded history (valid archive with real entries, then deletes/edits on either side) x the archive-fault catalogue: absent, zero length, truncation points (all in thorough / when <=160 bytes, else 53 seeded), garbage of 4 lengths, structure-breaking byte, 5 wrong JSON shapes, format_version in {0,2,u32::MAX}, own entries under another pair hash, the real archive of another pair, only .bak/.tmp; in a fifth of the runs also: the first root named through a symlink that is re-pointed to another directory, and (another fifth) absent/empty/garbage/.bak-only archives while a stale archive of the MIRRORED pair (an earlier `bisync B A`) exists and a file it records was deleted on both sides and re-created on one. Each variant is one execution of the real bisync on a clone of the world. Non-trivial = the state has a path that a trusted base would delete; distinct = hash of (trace shape of the faulted run, variant kind)".into()
    }
    fn assumptions(&self) -> Vec<String> {
        vec!["as C02; an archive fault is a change of the bytes stored at $HOME/.copia/archive/<pair>.json (and siblings) before the run".into()]
    }
    fn components(&self) -> Value {
        json!({"real": ["copia bisync", "Archive::load/save", "a second real bisync of another pair producing the foreign archive"], "simulated": ["file system incl. archive storage faults", "env", "hostname"]})
    }
    fn runs(&self, tier: Tier) -> u64 {
        match tier {
            Tier::Quick => 1_500,
            Tier::Thorough => 40_000,
        }
    }
    fn generate(&self, seed: u64, tier: Tier) -> Sc {
        let mut r = Rng::new(seed);
        let mut hist = gen_history(&mut r, 7, false);
        hist.allow_clash = false;
        // dangerous tail: deletes and edits on either side
        let mut tail = Vec::new();
        for _ in 0..r.urange(1, 4) {
            let side = r.below(2) as u8;
            let path = if r.coin() {
                PathSel::Existing(r.below(8) as u32)
            } else {
                PathSel::Base(r.below(u64::from(hist.npaths)) as u32)
            };
            if r.below(3) < 2 {
                tail.push(Step::Delete { side, path });
            } else {
                tail.push(Step::Write { side, path, content: r.below(u64::from(hist.ncontents)) as u32 });
            }
        }
        Sc {
            hist,
            tail,
            cfg_seed: r.next_u64(),
            only: None,
            all_truncations: tier == Tier::Thorough,
        }
    }
    fn execute(&self, sc: &Sc) -> RunReport {
        let mut rep = RunReport::default();
        let h = &sc.hist;
        if sc.cfg_seed % 5 == 0 && sc.only.is_none() {
            // "belongs to a different pair of directories" without touching the archive file:
            // the first root is named through a symlink that is re-pointed to another directory
            // between the runs (a `current -> release-N` rotation). The archive recorded for the
            // old pair must not be trusted for the new one.
            self.symlink_variant(sc, &mut rep);
            if rep.violation.is_some() {
                return rep;
            }
        }
        if sc.cfg_seed % 5 == 1 && sc.only.is_none() {
            self.mirrored_variant(sc, &mut rep);
            if rep.violation.is_some() {
                return rep;
            }
        }
        let hr = match exec_history(h, sc.cfg_seed, false, 0, |_, _, _, _| Ok(())) {
            Ok(x) => x,
            Err((o, c, d)) => {
                rep.harness_error = Some(format!("history failed: {o} {c} {d}"));
                return rep;
            }
        };
        rep.execs += hr.runs.len() as u64;
        let mut w = hr.final_world;
        for st in &sc.tail {
            apply_user_step(&mut w, st, h, 0);
        }
        let afile = archive_file(ROOT_A, ROOT_B);
        let orig = w.fs(HOST).get_file(&afile).unwrap_or_default();
        if orig.is_empty() {
            // history never completed a run: nothing to damage
            rep.probe("no_archive_state", 1);
            return rep;
        }
        // a real foreign archive: bisync two other roots under the same HOME
        let mut wf = w.clone();
        let t = wf.clock_ns;
        wf.host(HOST).put_file("/sim/C/other", b"<other>", t);
        wf.host(HOST).put_file("/sim/D/thing", b"<thing>", t);
        let fo = run_bisync(wf, run_cfg(sc.cfg_seed ^ 5), "/sim/C", "/sim/D", &[], h.hostname_env);
        rep.execs += 1;
        let foreign = fo.world.fs(HOST).get_file(&archive_file("/sim/C", "/sim/D")).unwrap_or_default();

        let a0 = strip_staging(&tree_bytes(&w, HOST, ROOT_A));
        let b0 = strip_staging(&tree_bytes(&w, HOST, ROOT_B));
        // would a trusted base delete something here? (non-triviality)
        let base = archive_entries(&w, ROOT_A, ROOT_B).unwrap_or_default();
        let deletable = base.iter().any(|(p, hsh)| {
            (a0.get(p).map(|c| b3(c)) == Some(*hsh) && !b0.contains_key(p))
                || (b0.get(p).map(|c| b3(c)) == Some(*hsh) && !a0.contains_key(p))
        });
        if deletable {
            rep.probe("state_with_pending_delete", 1);
        }
        let vars = variants(&orig, &foreign, sc.all_truncations, sc.cfg_seed);
        let mut shape = 0u64;
        for (vi, (name, f)) in vars.iter().enumerate() {
            if let Some(o) = sc.only {
                if o as usize != vi {
                    continue;
                }
            }
            let mut wv = w.clone();
            let t = wv.clock_ns;
            let kind: &str = match f {
                ArcFault::Absent => {
                    wv.host(HOST).remove_file(&afile);
                    "absent"
                }
                ArcFault::Bytes(b, k) => {
                    wv.host(HOST).put_file(&afile, b, t);
                    k
                }
                ArcFault::OnlyBakTmp => {
                    wv.host(HOST).remove_file(&afile);
                    wv.host(HOST).put_file(&format!("{afile}.bak"), &orig, t);
                    wv.host(HOST).put_file(&format!("{afile}.tmp"), &orig, t);
                    "baktmp"
                }
            };
            rep.fault(&format!("archive_{kind}"), 1);
            let out = run_bisync(wv, run_cfg(sc.cfg_seed ^ (vi as u64) << 8), ROOT_A, ROOT_B, &[], h.hostname_env);
            rep.execs += 1;
            rep.steps += out.stats.steps;
            let k = classify(&out);
            let ctx = |m: String| format!("archive fault '{name}': {m}");
            if k == RunKind::Crashed {
                rep.fail("c07.no_crash", "bisync-panicked-on-damaged-archive", ctx(format!("{:?}", out.procs[0].exit)));
                break;
            }
            let err = out.procs[0].err_str();
            if !err.contains("SAFE no-base mode") {
                rep.fail("c07.safe_mode", "damaged-archive-trusted", ctx("no `SAFE no-base mode` banner: the archive was trusted".into()));
                break;
            }
            let unl = unlinks_in_roots(&out.trace, &[ROOT_A, ROOT_B]);
            if !unl.is_empty() {
                rep.fail("c07.no_unlink", "delete-without-trusted-archive", ctx(format!("unlinked {:?}", &unl[..unl.len().min(3)])));
                break;
            }
            let a1 = strip_staging(&tree_bytes(&out.world, HOST, ROOT_A));
            let b1 = strip_staging(&tree_bytes(&out.world, HOST, ROOT_B));
            if k == RunKind::Aborted {
                rep.fail("c07.completes", "run-aborted-on-damaged-archive", ctx(err.lines().last().unwrap_or("").to_string()));
                break;
            }
            // every version present before is present on both sides afterwards
            let empty = Tree::new();
            // (with no trusted base nothing may disappear: pass an empty L)
            if let Some((_c, d)) = lost_version(&a0, &b0, &a1, &b1, &empty, k) {
                rep.fail("c07.versions_kept", "version-lost-with-damaged-archive", ctx(d));
                break;
            }
            if a1 != b1 {
                rep.fail("c07.converged", "sides-differ-after-safe-run", ctx(String::new()));
                break;
            }
            shape = fnv(&[shape, out.shape, crate::gen::fnv_bytes(kind.as_bytes())]);
            // the run after it must be a no-op with a trusted archive again
            if vi % 7 == 0 {
                let out2 = run_bisync(out.world.clone(), run_cfg(sc.cfg_seed ^ 0x99), ROOT_A, ROOT_B, &[], h.hostname_env);
                rep.execs += 1;
                if plan_line(&out2).map(|p| p.0) != Some(0) || out2.procs[0].err_str().contains("SAFE no-base mode") {
                    rep.fail("c07.recovers", "run-after-safe-mode-not-noop", ctx(out2.procs[0].err_str()));
                    break;
                }
            }
        }
        rep.nontrivial = deletable;
        rep.shape = fnv(&[shape, hr.shape]);
        rep
    }
    fn shrink(&self, sc: &Sc) -> Vec<Sc> {
        let mut out = Vec::new();
        if sc.only.is_none() {
            // pin the failing variant first: try each index (cheap relative to the catalogue)
            for i in 0..400u32 {
                out.push(Sc { only: Some(i), ..sc.clone() });
            }
        }
        for h in shrink_history(&sc.hist) {
            out.push(Sc { hist: h, ..sc.clone() });
        }
        for i in 0..sc.tail.len() {
            let mut t = sc.tail.clone();
            t.remove(i);
            out.push(Sc { tail: t, ..sc.clone() });
        }
        out
    }
    fn expected_probes(&self) -> Vec<&'static str> {
        vec!["state_with_pending_delete"]
    }
}
