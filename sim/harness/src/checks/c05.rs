//! C05 — patch never reports success on wrong bytes.
//! C20 — codecs round-trip and reject malformed input without crashing.

use crate::common::*;
use crate::framework::*;
use crate::gen::*;
use copia::async_sync::AsyncCopiaSync;
use copia::{Codec, CopiaSync, Delta, DeltaOp, FrameHeader, Message, Signature, StrongHash, Sync as _};
use copia_simworld::kernel::{catch_quiet, ExitKind, Fault, OpKind, ProcSel, RunCfg, World};
use copia_simworld::rng::Rng;
use copia_simworld::streams::{block_on, IoPlan, SimRead, SimWrite};
use serde::{Deserialize, Serialize};
use serde_json::{json, Value};

pub const AS_LIMIT: usize = 2 << 30; // address-space stand-in (ulimit -v)

pub struct C05;

#[derive(Clone, Debug, Serialize, Deserialize)]
pub struct Sc05 {
    pub seed: u64,
    pub bs: usize,
    pub data: DataGen,
    /// 0 sync engine, 1 async engine, 2 CLI
    pub engine: u8,
    /// which mutation (index into the catalogue), and its parameter
    pub mutation: u32,
    pub param: u64,
}

const N_MUT: u32 = 24;

/// Apply mutation `m` to (basis, delta); returns a description and optional stream fault.
fn mutate(m: u32, param: u64, basis: &mut Vec<u8>, delta: &mut Delta, r: &mut Rng) -> (&'static str, Option<u64>) {
    let nops = delta.ops.len().max(1);
    let oi = (param as usize) % nops;
    match m {
        0 => {
            *basis = r.bytes(basis.len());
            ("different-basis-same-length", None)
        }
        1 => {
            let bs = delta.block_size.max(1) as usize;
            let cut = match param % 4 {
                0 => (basis.len() / bs) * bs,
                1 => ((basis.len() / bs) * bs).saturating_sub(1),
                2 => basis.len().saturating_sub(1),
                _ => r.usize_below(basis.len() + 1),
            };
            basis.truncate(cut);
            ("basis-truncated", None)
        }
        2 => {
            let n = 1 + r.usize_below(100);
            let extra = r.bytes(n);
            basis.extend(extra);
            ("basis-extended", None)
        }
        3 => {
            if !basis.is_empty() {
                for _ in 0..(1 + param % 3) {
                    let i = r.usize_below(basis.len());
                    basis[i] ^= 1 << r.below(8);
                }
            }
            ("basis-bit-flips", None)
        }
        4 => ("basis-read-error", Some(param % (basis.len() as u64 + 1))),
        5 => {
            if let Some(DeltaOp::Copy { offset, .. }) = delta.ops.get_mut(oi) {
                *offset = offset.wrapping_add(1 + param % 4096);
            }
            ("copy-offset-shifted", None)
        }
        6 => {
            if let Some(DeltaOp::Copy { len, .. }) = delta.ops.get_mut(oi) {
                *len = match param % 5 {
                    0 => 0,
                    1 => len.saturating_sub(1),
                    2 => len.saturating_add(1),
                    3 => u32::MAX,
                    _ => 1 << 20,
                };
            }
            ("copy-len-changed", None)
        }
        7 => {
            if let Some(DeltaOp::Copy { offset, len }) = delta.ops.get_mut(oi) {
                *offset = u64::MAX - u64::from(*len) / 2;
            }
            ("copy-offset+len-overflows-u64", None)
        }
        8 => {
            if !delta.ops.is_empty() {
                delta.ops.remove(oi);
            }
            ("op-dropped", None)
        }
        9 => {
            if let Some(op) = delta.ops.get(oi).cloned() {
                delta.ops.insert(oi, op);
            }
            ("op-duplicated", None)
        }
        10 => {
            if delta.ops.len() >= 2 {
                let j = (oi + 1) % delta.ops.len();
                delta.ops.swap(oi, j);
            }
            ("ops-swapped", None)
        }
        11 => {
            for op in delta.ops.iter_mut() {
                if let DeltaOp::Literal(v) = op {
                    if !v.is_empty() {
                        let i = r.usize_below(v.len());
                        v[i] ^= 0x40;
                        break;
                    }
                }
            }
            ("literal-byte-flipped", None)
        }
        12 => {
            delta.ops.insert(oi, DeltaOp::Literal(r.bytes(1 + (param % 50) as usize)));
            ("literal-spliced-in", None)
        }
        13 => {
            delta.source_size = delta.source_size.wrapping_add(1 + param % 1000);
            ("source_size-edited", None)
        }
        14 => {
            delta.basis_size = match param % 4 {
                0 => 0,
                1 => u64::MAX,
                2 => delta.basis_size / 2,
                _ => delta.basis_size + 1_000_000,
            };
            ("basis_size-edited", None)
        }
        15 => {
            // hostile copy made to pass validate by lying about basis_size
            delta.basis_size = u64::MAX;
            delta.ops.insert(oi, DeltaOp::Copy { offset: basis.len() as u64 + param % 5000, len: 1 + (param % 70_000) as u32 });
            ("hostile-copy-beyond-basis-with-basis_size=MAX", None)
        }
        16 => {
            delta.basis_size = u64::MAX;
            delta.ops.insert(oi, DeltaOp::Copy { offset: 0, len: u32::MAX });
            ("copy-len-u32max-with-basis_size=MAX", None)
        }
        17 => {
            delta.block_size = match param % 5 {
                0 => 0,
                1 => 3,
                2 => 1 << 20,
                3 => u32::MAX,
                _ => delta.block_size.wrapping_mul(2),
            };
            ("block_size-edited", None)
        }
        18 => {
            let mut c = *delta.checksum.as_bytes();
            c[(param % 32) as usize] ^= 1;
            delta.checksum = StrongHash::from_bytes(c);
            ("checksum-edited", None)
        }
        19 => {
            delta.ops.clear();
            ("all-ops-dropped", None)
        }
        20 => {
            delta.ops.reverse();
            ("ops-reversed", None)
        }
        21 => {
            // copy pointing at a different but valid block
            if let Some(DeltaOp::Copy { offset, len }) = delta.ops.get_mut(oi) {
                let bs = u64::from(delta.block_size.max(1));
                let nb = (basis.len() as u64 / bs).max(1);
                *offset = (param % nb) * bs;
                let _ = len;
            }
            ("copy-retargeted-to-another-block", None)
        }
        22 => {
            basis.clear();
            ("basis-empty", None)
        }
        _ => ("no-mutation-control", None),
    }
}

impl Check for C05 {
    type Sc = Sc05;
    fn id(&self) -> &'static str {
        "C05"
    }
    fn level(&self) -> &'static str {
        "fault_enumeration"
    }
    fn rule(&self) -> String {
        format!("one run = one valid (basis, delta) from the C01 generators x one fault of a {N_MUT}-entry catalogue (different / truncated / extended / bit-flipped / empty basis, read error at byte n, copy offset or length changed incl. 0, u32::MAX and u64 overflow, op dropped / duplicated / swapped / reversed / retargeted, literal flipped or spliced, source_size / basis_size / block_size / checksum edited, hostile copies made to pass validation by basis_size=u64::MAX) x engine (sync, async, `copia patch` on simulated files, the latter also with raw byte flips and truncations of the delta file). The output sink records every byte written. Non-trivial = the fault actually changed the basis or the delta; distinct = hash of (fault, engine, data shape)")
    }
    fn assumptions(&self) -> Vec<String> {
        vec!["faults are enumerated per sampled valid pair; pairs are sampled".into(), "a request above 2 GiB is counted (probe) as an allocation that would abort under a 2 GiB address-space limit".into()]
    }
    fn components(&self) -> Value {
        json!({"real": ["CopiaSync::patch", "AsyncCopiaSync::patch", "Delta::validate", "copia patch CLI"], "simulated": ["basis stream (recording every offset served, injected errors)", "output sink", "file system under the CLI", "allocator monitor"]})
    }
    fn runs(&self, tier: Tier) -> u64 {
        match tier {
            Tier::Quick => 60_000,
            Tier::Thorough => 6_000_000,
        }
    }
    fn generate(&self, seed: u64, _tier: Tier) -> Sc05 {
        let mut r = Rng::new(seed);
        let engine = match r.below(8) {
            0 => 2,
            1..=3 => 1,
            _ => 0,
        };
        let mut bs = *r.pick(&CLI_BLOCK_SIZES[..5]);
        let mut data = DataGen::random(&mut r, bs, if engine == 2 { 20_000 } else { 40_000 });
        let mut mutation = r.below(u64::from(N_MUT) + 2) as u32;
        // one run in 15: a few hundred KiB with small edits (long copies behind short literals —
        // pieces on both sides of any internal buffer size), often with a fault that leaves the
        // delta valid (a longer basis), so that success is the expected outcome
        if r.below(15) == 0 {
            bs = 8192;
            data = DataGen::random(&mut r, bs, 400_000);
            data.kind = 2;
            data.basis_blocks = data.basis_blocks.max(12);
            data.edits = data.edits.clamp(1, 2);
            if r.coin() {
                mutation = 2;
            }
        }
        Sc05 { seed: r.next_u64(), bs, data, engine, mutation, param: r.next_u64() }
    }
    fn execute(&self, sc: &Sc05) -> RunReport {
        let mut rep = RunReport::default();
        rep.execs = 1;
        let mut r = Rng::new(sc.seed);
        let (mut basis, source) = sc.data.build(sc.bs);
        let sig = match Signature::generate(&mut &basis[..], sc.bs) {
            Ok(s) => s,
            Err(e) => {
                rep.harness_error = Some(format!("signature: {e}"));
                return rep;
            }
        };
        let mut delta = match CopiaSync::new().delta(&source[..], &sig) {
            Ok(d) => d,
            Err(e) => {
                rep.harness_error = Some(format!("delta: {e}"));
                return rep;
            }
        };
        let (b0, d0) = (basis.clone(), delta.clone());
        let (name, read_fault) = if sc.mutation < N_MUT { mutate(sc.mutation, sc.param, &mut basis, &mut delta, &mut r) } else { ("raw-delta-file-corruption", None) };
        rep.fault(name, 1);
        rep.nontrivial = basis != b0 || delta != d0 || read_fault.is_some() || sc.mutation >= N_MUT;
        rep.shape = fnv(&[u64::from(sc.mutation), u64::from(sc.engine), u64::from(sc.data.kind), u64::from(sc.data.basis_blocks), sc.bs as u64, sc.param % 8]);
        let want = *delta.checksum.as_bytes();
        if sc.engine == 2 {
            return self.cli(sc, &basis, &delta, &mut r, rep);
        }
        let mut plan = if r.coin() { IoPlan::random(&mut r) } else { IoPlan::benign_none() };
        plan.fail_at = read_fault;
        let mut rd = SimRead::new(basis.clone(), plan);
        // the output sink: mostly well-behaved; sometimes it takes the bytes in pieces (short
        // writes, Interrupted, Pending), sometimes it fails for good at some byte (disk full)
        let mut wplan = if r.below(3) == 0 { IoPlan::random(&mut r) } else { IoPlan::benign_none() };
        if r.below(4) == 0 {
            wplan.fail_at = Some(r.below(source.len() as u64 + 2));
            rep.fault("output_sink_error", 1);
        }
        let mut wr = SimWrite::new(wplan);
        copia_simworld::alloc::arm();
        let res = catch_quiet(|| {
            if sc.engine == 0 {
                CopiaSync::new().patch(&mut rd, &delta, &mut wr).map_err(|e| e.to_string())
            } else {
                block_on(AsyncCopiaSync::new().patch(&mut rd, &delta, &mut wr)).map_err(|e| e.to_string())
            }
        });
        let peak = copia_simworld::alloc::disarm();
        if peak > AS_LIMIT {
            rep.probe("allocation_request_above_2GiB", 1);
        }
        let eng = if sc.engine == 0 { "sync" } else { "async" };
        match res {
            Err(p) if p.contains("SIM-HANG") => rep.fail("c05.no_hang", "patch-does-not-terminate", format!("{eng} engine, fault {name}: {p}")),
            Err(p) => rep.fail("c05.no_crash", "patch-panicked", format!("{eng} engine, fault {name}: {p}")),
            Ok(Ok(())) => {
                rep.probe("patch_reported_success", 1);
                if *blake3::hash(&wr.sink).as_bytes() != want {
                    rep.fail("c05.success_means_verified", "success-on-wrong-bytes", format!("{eng} engine, fault {name}: Ok(()) but the {} bytes written hash to {}, the delta's checksum is {}", wr.sink.len(), short_hex(blake3::hash(&wr.sink).as_bytes()), short_hex(&want)));
                }
            }
            Ok(Err(_)) => rep.probe("patch_reported_error", 1),
        }
        // no byte of the output may come from outside the supplied basis: SimRead can only
        // serve offsets inside it; a request beyond shows up as a short read / error
        for (off, n) in &rd.served {
            if off + *n as u64 > basis.len() as u64 {
                rep.fail("c05.bounds", "read-outside-basis", format!("{off}+{n} > {}", basis.len()));
            }
        }
        rep
    }
    fn shrink(&self, sc: &Sc05) -> Vec<Sc05> {
        sc.data.shrink().into_iter().map(|d| Sc05 { data: d, ..sc.clone() }).collect()
    }
    fn expected_probes(&self) -> Vec<&'static str> {
        vec!["patch_reported_success", "patch_reported_error", "cli_exit_nonzero", "cli_exit_zero"]
    }
}

impl C05 {
    fn cli(&self, sc: &Sc05, basis: &[u8], delta: &Delta, r: &mut Rng, mut rep: RunReport) -> RunReport {
        let mut file = bincode::serialize(delta).unwrap_or_default();
        if sc.mutation >= N_MUT && !file.is_empty() {
            match sc.param % 3 {
                0 => {
                    let i = r.usize_below(file.len());
                    file[i] ^= 1 << r.below(8);
                }
                1 => {
                    let cut = r.usize_below(file.len());
                    file.truncate(cut);
                }
                _ => {
                    // absurd op count
                    if file.len() > 40 {
                        let at = 4 + 8 + 8; // block_size u32, source_size u64, basis_size u64, then Vec len
                        file[at..at + 8].copy_from_slice(&u64::MAX.to_le_bytes());
                    }
                }
            }
        }
        let mut w = World::new();
        let t = w.clock_ns;
        w.host("local").put_file("/w/basis", basis, t);
        w.host("local").put_file("/w/d.delta", &file, t);
        w.host("local").mkdir_p("/home/u", t);
        // a third of the CLI runs: the output path already holds (longer) bytes from an earlier run
        if r.below(3) == 0 {
            let n = delta.source_size as usize % 200_000 + 1 + r.usize_below(5000);
            w.host("local").put_file("/w/out", &r.bytes(n), t);
            rep.probe("output_path_preexisting", 1);
        }
        let mut cfg = RunCfg::default();
        cfg.seed = sc.seed;
        cfg.short_read_pct = *r.pick(&[0u32, 30]);
        cfg.record_trace = false;
        // a third of the CLI runs: the OUTPUT misbehaves — one write to it fails (EIO / ENOSPC) or
        // is short. Success may still only be reported for bytes that hash to the checksum.
        match r.below(6) {
            0 => cfg.faults.push(Fault::FailOp { target: ProcSel::Role("copia".into()), nth: 1 + r.below(4) as u32, kind: OpKind::Write, errno: *r.pick(&[copia_simworld::fs::EIO, copia_simworld::fs::ENOSPC]) }),
            1 => cfg.faults.push(Fault::ShortWrite { target: ProcSel::Role("copia".into()), nth: 1 + r.below(4) as u32 }),
            _ => {}
        }
        let out = run_one(w, cfg, "copia", "local", &sv(&["copia", "patch", "/w/basis", "/w/d.delta", "-o", "/w/out"]), env_of(&[("HOME", "/home/u")]));
        rep.steps = out.stats.steps;
        rep.fault("output_write_error", out.stats.injected_errors);
        rep.fault("output_short_write", out.stats.short_writes);
        let p = &out.procs[0];
        if p.alloc_peak > AS_LIMIT {
            rep.probe("allocation_request_above_2GiB", 1);
        }
        match &p.exit {
            ExitKind::Aborted(m) => rep.fail("c05.no_crash", "copia-patch-crashed", format!("panic (= abort in the shipped profile): {m}")),
            ExitKind::Code(0) => {
                rep.probe("cli_exit_zero", 1);
                let outb = out.world.fs("local").get_file("/w/out").unwrap_or_default();
                match bincode::deserialize::<Delta>(&file) {
                    Ok(d) => {
                        if blake3::hash(&outb).as_bytes() != d.checksum.as_bytes() {
                            rep.fail("c05.success_means_verified", "cli-success-on-wrong-bytes", format!("exit 0 but output hashes to {}, delta file says {}", short_hex(blake3::hash(&outb).as_bytes()), short_hex(d.checksum.as_bytes())));
                        }
                    }
                    Err(_) => rep.fail("c05.success_means_verified", "cli-success-on-unparsable-delta", "exit 0 on a delta file that does not parse".into()),
                }
            }
            ExitKind::Code(_) => {
                rep.probe("cli_exit_nonzero", 1);
                if !p.err_str().contains("Error") {
                    rep.fail("c05.error_reported", "cli-nonzero-without-report", p.err_str());
                }
            }
            ExitKind::Killed => rep.harness_error = Some("unexpected kill".into()),
        }
        if out.budget_exceeded || out.deadlock {
            rep.fail("c05.no_hang", "copia-patch-hangs", format!("deadlock={} budget={}", out.deadlock, out.budget_exceeded));
        }
        rep
    }
}

// ------------------------------------------------------------------------------------
// C20
// ------------------------------------------------------------------------------------

pub struct C20;

#[derive(Clone, Debug, Serialize, Deserialize)]
pub struct Sc20 {
    pub seed: u64,
    /// 0 control round trip, 1 truncation, 2 header corruption, 3 payload corruption,
    /// 4 random bytes, 5 read error, 6 CLI delta with hostile signature, 7 CLI patch with
    /// hostile delta, 8 header decode of arbitrary 12 bytes
    pub mode: u8,
    pub msg_kind: u8,
    pub param: u64,
}

fn gen_message(kind: u8, r: &mut Rng) -> Message {
    match kind % 7 {
        0 => Message::SignatureRequest { file_id: r.next_u64(), block_size: r.next_u64() as u32 },
        1 => {
            let bs = *r.pick(&CLI_BLOCK_SIZES[..4]);
            let n = match r.below(4) {
                0 => 0,
                1 => r.usize_below(3000),
                _ => r.usize_below(200_000),
            };
            let data = r.bytes(n);
            let sig = Signature::generate(&mut &data[..], bs).unwrap();
            Message::SignatureResponse { file_id: r.next_u64(), signature: sig }
        }
        2 => {
            let bs = *r.pick(&CLI_BLOCK_SIZES[..4]);
            let dg = DataGen::random(r, bs, 30_000);
            let (b, s) = dg.build(bs);
            let sig = Signature::generate(&mut &b[..], bs).unwrap();
            let d = CopiaSync::new().delta(&s[..], &sig).unwrap();
            Message::DeltaData { file_id: r.next_u64(), delta: d }
        }
        3 => Message::Ack {
            file_id: r.next_u64(),
            success: r.coin(),
            message: if r.coin() { Some("é".repeat(if r.coin() { r.usize_below(300) } else { r.usize_below(6000) })) } else { None },
        },
        4 => Message::Error { code: r.next_u64() as u32, message: "x".repeat(if r.coin() { r.usize_below(5000) } else { r.usize_below(40_000) }) },
        5 => Message::Ping { seq: r.next_u64() },
        _ => Message::Pong { seq: r.next_u64() },
    }
}

impl Check for C20 {
    type Sc = Sc20;
    fn id(&self) -> &'static str {
        "C20"
    }
    fn level(&self) -> &'static str {
        "fault_enumeration"
    }
    fn rule(&self) -> String {
        "one run = one message of one of the seven kinds (empty and large signatures/deltas) written by Codec::write_message into a simulated stream and then read back under one fault: none (control, benign chunking / Interrupted), truncation at a seeded offset (thorough: every offset of sampled messages), corruption of each of the 12 header bytes, payload byte corruption, a hostile 64-bit count written over the length prefixes at the start of small and large (> 4 KiB) payloads, random bytes, read error at byte n, arbitrary 12-byte headers; or a `copia delta` / `copia patch` run on a hostile signature / delta file (block size 0 / not a power of two / huge, element counts up to 2^64-1, truncations, flips). Non-trivial = a fault was applied; distinct = hash of (mode, message kind, fault position)".into()
    }
    fn assumptions(&self) -> Vec<String> {
        vec![
            "the pure encode/decode identity is exercised only as the control batch; what is decided is behaviour under truncated, chunked, corrupted and hostile streams and files".into(),
            "allocation bound: largest single request on the decoding thread between start and end of the call".into(),
        ]
    }
    fn components(&self) -> Value {
        json!({"real": ["FrameHeader", "Message", "Codec::{write_message, read_message}", "bincode (de)serialisation of Signature/Delta", "copia delta / copia patch file readers"], "simulated": ["byte streams with chunking, Interrupted, truncation, corruption, errors", "files under the CLI", "allocator monitor"]})
    }
    fn runs(&self, tier: Tier) -> u64 {
        match tier {
            Tier::Quick => 60_000,
            Tier::Thorough => 6_000_000,
        }
    }
    fn generate(&self, seed: u64, tier: Tier) -> Sc20 {
        let mut r = Rng::new(seed);
        if tier == Tier::Thorough && r.below(40) == 0 {
            // mode 9: every truncation offset and every header byte of one sampled message
            return Sc20 { seed: r.next_u64(), mode: 9, msg_kind: r.below(7) as u8, param: 0 };
        }
        let mode = match r.below(20) {
            0 | 1 => 0,
            2..=5 => 1,
            6..=8 => 2,
            9 | 10 => 3,
            11 | 12 => 4,
            13 => 5,
            14 | 15 => 6,
            16 | 17 => 7,
            18 => 10,
            _ => 8,
        };
        Sc20 { seed: r.next_u64(), mode, msg_kind: r.below(7) as u8, param: r.next_u64() }
    }
    fn execute(&self, sc: &Sc20) -> RunReport {
        let mut rep = RunReport::default();
        rep.execs = 1;
        rep.nontrivial = sc.mode != 0;
        let mut r = Rng::new(sc.seed);
        rep.shape = fnv(&[u64::from(sc.mode), u64::from(sc.msg_kind), sc.param % 4096]);
        if sc.mode == 6 || sc.mode == 7 {
            return self.cli(sc, &mut r, rep);
        }
        if sc.mode == 9 {
            // encoded length of this seed's message, then sweep truncation (mode 1) and header bytes (mode 2)
            let msg = gen_message(sc.msg_kind, &mut Rng::new(sc.seed));
            let mut w = SimWrite::new(IoPlan::benign_none());
            if Codec::new().write_message(&mut w, &msg).is_err() {
                return rep;
            }
            let len = w.sink.len().min(3000) as u64;
            for cut in 0..len {
                let r2 = self.execute(&Sc20 { mode: 1, param: cut, ..sc.clone() });
                rep.execs += 1;
                if r2.violation.is_some() {
                    rep.violation = r2.violation;
                    return rep;
                }
            }
            for i in 0..12u64 {
                for v in 0..3u64 {
                    for bit in 0..8u64 {
                        let r2 = self.execute(&Sc20 { mode: 2, param: i | (v << 8) | (bit << 16), ..sc.clone() });
                        rep.execs += 1;
                        if r2.violation.is_some() {
                            rep.violation = r2.violation;
                            return rep;
                        }
                    }
                }
            }
            rep.probe("all_truncation_offsets_swept", 1);
            return rep;
        }
        if sc.mode == 8 {
            let mut b = [0u8; 12];
            r.fill(&mut b);
            if r.coin() {
                b[..4].copy_from_slice(b"COPA");
            }
            if r.coin() {
                b[9] = 1;
            }
            if r.below(2) == 0 {
                b[8] = 1 + (r.below(7) as u8);
            }
            if r.below(2) == 0 {
                let l = (r.below(20 << 20)) as u32;
                b[4..8].copy_from_slice(&l.to_le_bytes());
            }
            let res = catch_quiet(|| FrameHeader::decode(&b));
            match res {
                Err(p) => rep.fail("c20.total", "header-decode-panicked", p),
                Ok(Ok(h)) => {
                    let len = u32::from_le_bytes([b[4], b[5], b[6], b[7]]);
                    if &b[..4] != b"COPA" || b[9] != 1 || !(1..=7).contains(&b[8]) || len > 16 * 1024 * 1024 {
                        rep.fail("c20.header_rejects", "invalid-header-accepted", format!("{:02x?} decoded to {h:?}", b));
                    }
                    rep.probe("header_accepted", 1);
                }
                Ok(Err(_)) => rep.probe("header_rejected", 1),
            }
            return rep;
        }
        let msg = gen_message(sc.msg_kind, &mut r);
        let codec = Codec::new();
        let mut wr = SimWrite::new(if sc.mode == 0 { IoPlan::random(&mut r) } else { IoPlan::benign_none() });
        if let Err(e) = codec.write_message(&mut wr, &msg) {
            // only legitimate for payloads above the 16 MiB bound
            rep.probe("write_refused", 1);
            let _ = e;
            return rep;
        }
        let mut bytes = wr.sink.clone();
        // header shape
        if bytes.len() < 12 || &bytes[..4] != b"COPA" || bytes[9] != 1 || u32::from_le_bytes([bytes[4], bytes[5], bytes[6], bytes[7]]) as usize != bytes.len() - 12 {
            rep.fail("c20.header_shape", "encoded-header-malformed", format!("{:02x?}", &bytes[..bytes.len().min(12)]));
            return rep;
        }
        let mut plan = if sc.mode == 0 || r.coin() { IoPlan::random(&mut r) } else { IoPlan::benign_none() };
        let mut expect_err = false;
        let mut fault = "none";
        match sc.mode {
            1 => {
                let cut = (sc.param % bytes.len() as u64) as usize;
                bytes.truncate(cut);
                expect_err = true;
                fault = "truncated";
            }
            2 => {
                let i = ((sc.param & 0xFF) % 12) as usize;
                let old = bytes[i];
                bytes[i] = match ((sc.param >> 8) & 0xFF) % 3 {
                    0 => old ^ (1 << (((sc.param >> 16) & 0xFF) % 8)),
                    1 => 0xFF,
                    _ => 0,
                };
                fault = "header-byte";
                // wrong magic / version / unknown type / oversize length must be an error
                let len = u32::from_le_bytes([bytes[4], bytes[5], bytes[6], bytes[7]]);
                if &bytes[..4] != b"COPA" || bytes[9] != 1 || !(1..=7).contains(&bytes[8]) || len > 16 * 1024 * 1024 {
                    expect_err = true;
                }
            }
            3 => {
                if bytes.len() > 12 {
                    let i = 12 + (sc.param % (bytes.len() as u64 - 12)) as usize;
                    bytes[i] ^= 1 << ((sc.param >> 32) % 8);
                }
                fault = "payload-byte";
            }
            4 => {
                let n = r.usize_below(200);
                bytes = r.bytes(n);
                if r.coin() && bytes.len() >= 12 {
                    bytes[..4].copy_from_slice(b"COPA");
                    bytes[9] = 1;
                    bytes[8] = 1 + (r.below(7) as u8);
                    // absurd counts inside the payload
                    let l = (bytes.len() - 12) as u32;
                    bytes[4..8].copy_from_slice(&l.to_le_bytes());
                }
                fault = "random-bytes";
            }
            10 => {
                // a hostile 64-bit count written over 8 bytes near the start of the payload (where the
                // length prefixes of strings, block lists and op lists live), for small and large frames
                if bytes.len() >= 12 + 8 {
                    let span = (bytes.len() - 12 - 7).min(48) as u64;
                    let i = 12 + (sc.param % span) as usize;
                    let v: u64 = match (sc.param >> 8) % 6 {
                        0 => u64::MAX,
                        1 => 1 << 63,
                        2 => 1 << 40,
                        3 => (1 << 32) + (sc.param >> 16) % 4096,
                        4 => (bytes.len() as u64) + (sc.param >> 16) % 4096,
                        _ => (64 << 20) + (sc.param >> 16) % 4096,
                    };
                    bytes[i..i + 8].copy_from_slice(&v.to_le_bytes());
                }
                fault = "hostile-length-field";
            }
            5 => {
                plan.fail_at = Some(sc.param % (bytes.len() as u64 + 1));
                expect_err = plan.fail_at.unwrap() < bytes.len() as u64;
                fault = "read-error";
            }
            _ => {}
        }
        rep.fault(fault, 1);
        let mut rd = SimRead::new(bytes, plan);
        let mut c2 = Codec::new();
        copia_simworld::alloc::arm();
        let res = catch_quiet(|| c2.read_message(&mut rd).map_err(|e| e.to_string()));
        let peak = copia_simworld::alloc::disarm();
        if peak > (16 << 20) + (1 << 20) {
            rep.fail("c20.bounded", "decode-allocates-beyond-payload-bound", format!("fault {fault}: largest single allocation request {peak} bytes"));
            return rep;
        }
        match res {
            Err(p) => rep.fail("c20.total", "decode-panicked", format!("fault {fault}: {p}")),
            Ok(Ok(m)) => {
                rep.probe("decoded_value", 1);
                if expect_err {
                    rep.fail("c20.rejects", "malformed-input-accepted", format!("fault {fault} must be an error, decoded {:?}", std::mem::discriminant(&m)));
                } else if sc.mode == 0 && m != msg {
                    rep.fail("c20.round_trip", "round-trip-not-identity", format!("kind {}", sc.msg_kind));
                }
            }
            Ok(Err(_)) => {
                rep.probe("decode_error", 1);
                if sc.mode == 0 {
                    rep.fail("c20.round_trip", "valid-stream-rejected", format!("kind {} under benign chunking", sc.msg_kind));
                }
            }
        }
        rep
    }
    fn expected_probes(&self) -> Vec<&'static str> {
        vec!["decoded_value", "decode_error", "header_accepted", "header_rejected", "cli_exit_nonzero"]
    }
}

impl C20 {
    fn cli(&self, sc: &Sc20, r: &mut Rng, mut rep: RunReport) -> RunReport {
        let bs = *r.pick(&CLI_BLOCK_SIZES[..4]);
        let dg = DataGen::random(r, bs, 20_000);
        let (basis, source) = dg.build(bs);
        let sig = Signature::generate(&mut &basis[..], bs).unwrap();
        let delta = CopiaSync::new().delta(&source[..], &sig).unwrap();
        let is_delta_cmd = sc.mode == 6;
        let mut file = if is_delta_cmd { bincode::serialize(&sig).unwrap() } else { bincode::serialize(&delta).unwrap() };
        let fault = match sc.param % 8 {
            0 => {
                // block size field: first 8 bytes (usize) of a signature, first 4 (u32) of a delta
                let v: u64 = *r.pick(&[0u64, 1, 3, 1000, 1 << 20, u64::from(u32::MAX), u64::MAX]);
                if is_delta_cmd {
                    file[..8].copy_from_slice(&v.to_le_bytes());
                } else {
                    file[..4].copy_from_slice(&(v as u32).to_le_bytes());
                }
                "block-size-field"
            }
            1 => {
                // element count
                let at = if is_delta_cmd { 16 } else { 20 };
                if file.len() >= at + 8 {
                    file[at..at + 8].copy_from_slice(&r.pick(&[u64::MAX, 1 << 40, 1 << 32]).to_le_bytes());
                }
                "absurd-element-count"
            }
            2 => {
                let cut = r.usize_below(file.len().max(1));
                file.truncate(cut);
                "truncated-file"
            }
            3 => {
                if !file.is_empty() {
                    let i = r.usize_below(file.len());
                    file[i] ^= 1 << r.below(8);
                }
                "bit-flip"
            }
            4 => {
                let n = r.usize_below(300);
                file = r.bytes(n);
                "random-bytes"
            }
            5 => {
                file.clear();
                "empty-file"
            }
            6 => {
                // a delta whose copy length is u32::MAX and whose basis_size lies
                if !is_delta_cmd {
                    let mut d = delta.clone();
                    d.basis_size = u64::MAX;
                    d.ops.insert(0, DeltaOp::Copy { offset: 0, len: u32::MAX });
                    file = bincode::serialize(&d).unwrap();
                }
                "copy-len-u32max"
            }
            _ => "valid-file-control",
        };
        rep.fault(fault, 1);
        let mut w = World::new();
        let t = w.clock_ns;
        w.host("local").put_file("/w/basis", &basis, t);
        w.host("local").put_file("/w/source", &source, t);
        w.host("local").put_file("/w/in.bin", &file, t);
        w.host("local").mkdir_p("/home/u", t);
        let mut cfg = RunCfg::default();
        cfg.seed = sc.seed;
        cfg.record_trace = false;
        cfg.op_budget = 100_000;
        let argv = if is_delta_cmd { sv(&["copia", "delta", "/w/source", "/w/in.bin", "-o", "/w/out"]) } else { sv(&["copia", "patch", "/w/basis", "/w/in.bin", "-o", "/w/out"]) };
        let out = run_one(w, cfg, "copia", "local", &argv, env_of(&[("HOME", "/home/u")]));
        rep.steps = out.stats.steps;
        let p = &out.procs[0];
        let cmd = if is_delta_cmd { "copia delta" } else { "copia patch" };
        if out.budget_exceeded || out.deadlock {
            rep.fail("c20.no_hang", "cli-hangs-on-hostile-file", format!("{cmd}, {fault}"));
            return rep;
        }
        match &p.exit {
            ExitKind::Aborted(m) => rep.fail("c20.cli_no_crash", "cli-crashes-on-hostile-file", format!("{cmd} on a file with {fault}: panic (= abort in the shipped profile): {m}")),
            ExitKind::Code(0) => rep.probe("cli_exit_zero", 1),
            ExitKind::Code(_) => {
                rep.probe("cli_exit_nonzero", 1);
                if !p.err_str().contains("Error") {
                    rep.fail("c20.cli_reports", "cli-nonzero-without-report", p.err_str());
                }
            }
            ExitKind::Killed => {}
        }
        if p.alloc_peak > AS_LIMIT {
            rep.fail("c20.cli_no_crash", "cli-allocation-above-address-space-limit", format!("{cmd} on a file with {fault}: single allocation request of {} bytes (limit stand-in 2 GiB): the process would be killed/abort under that limit", p.alloc_peak));
        }
        rep
    }
}
