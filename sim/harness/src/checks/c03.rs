//! C03 — hub commits are a linearizable compare-and-swap.

use super::hub_common::*;
use crate::common::*;
use crate::framework::*;
use crate::gen::fnv;
use copia_simworld::kernel::*;
use copia_simworld::rng::Rng;
use serde_json::{json, Value};

pub struct C03;

pub fn gen_clients(r: &mut Rng, n: usize, with_invalid: bool, max_reqs: usize) -> (Vec<(String, u32)>, Vec<ClientProg>) {
    let nshared = r.urange(1, 3);
    let shared: Vec<String> = HUB_PATHS[..nshared].iter().map(|s| (*s).to_string()).collect();
    let mut init = Vec::new();
    for (i, p) in shared.iter().enumerate() {
        if r.below(3) > 0 {
            init.push((p.clone(), i as u32));
        }
    }
    if r.coin() {
        init.push(("static".to_string(), 9));
    }
    // in a quarter of the scenarios some requests address a directory or a path below a file
    let odd_paths = r.below(4) == 0;
    // ("blocker" is a regular file no request addresses directly, so no in-flight Put ever
    // creates a directory there: early parent-directory creation by a concurrent, not yet
    // committed Put is outside what the CAS statement talks about)
    if odd_paths {
        if !init.iter().any(|(p, _)| p == "dir/k2") {
            init.push(("dir/k2".to_string(), 1));
        }
        init.push(("blocker".to_string(), 3));
    }
    let mut clients = Vec::new();
    for c in 0..n {
        let nreq = r.urange(2, max_reqs);
        let mut reqs = Vec::new();
        if r.below(3) == 0 {
            reqs.push(Req::Hello);
        }
        for _ in 0..nreq {
            let path = match r.below(40) {
                0..=7 => format!("priv{c}"),
                // a path that is a DIRECTORY on the hub, and one below a regular FILE
                8 if odd_paths => "dir".to_string(),
                9 if odd_paths => "blocker/below".to_string(),
                // the hub's own lock file, addressed like any other relative path
                10 if odd_paths => ".copia/commit.lock".to_string(),
                _ => r.pick(&shared).clone(),
            };
            // sometimes the same file under another spelling (`./p`, `d//f`, `d/./f`): the hub
            // accepts these, and they name the same compare-and-swap object
            let path = if r.below(6) == 0 { respell(&path, r) } else { path };
            let mut expected = match r.below(10) {
                0 | 1 => Exp::None,
                2 | 3 => Exp::Initial,
                4..=7 => Exp::Learned,
                _ => Exp::OfBody(r.below(4) as u32),
            };
            // conflict-copies as first-class paths: a small body all clients share is sometimes
            // written with a stale expectation (it lands at `<p>.conflict-<its hash>`), and that very
            // name is sometimes written to / deleted / read like any other path
            let mut shared64_body: Option<u32> = None;
            let path = if r.below(9) == 0 {
                let t = r.below(2) as u32;
                if r.coin() {
                    expected = *r.pick(&[Exp::OfShared(t), Exp::Learned, Exp::None]);
                    conflict_name_of_shared(&shared[0], t)
                } else {
                    shared64_body = Some(t);
                    // (matching, stale, or "what the other shared body hashes to": two clients may
                    // well write byte-identical content, the second one on a stale view)
                    expected = *r.pick(&[Exp::OfBody(3), Exp::Initial, Exp::None, Exp::Learned, Exp::OfShared(1 - t), Exp::OfBody(3)]);
                    shared[0].clone()
                }
            } else {
                path
            };
            match r.below(100) {
                0..=54 => {
                    let size = match r.below(14) {
                        0 => 300_000,
                        1 => 70_000,
                        2 => 600_000,
                        // the empty file (published like any other content)
                        3 => 0,
                        _ => 24 + r.below(200) as u32,
                    };
                    let declared = if with_invalid && r.below(5) == 0 {
                        match r.below(3) {
                            0 => Declared::WrongHash,
                            1 => Declared::ShortBodyThenClose,
                            _ => Declared::ExcessBytes(1 + r.below(40) as u32),
                        }
                    } else {
                        Declared::Valid
                    };
                    // C10 mode only: two clients may put the very same bytes (same declared hash)
                    let shared_body = if with_invalid && r.below(4) == 0 { Some(r.below(2) as u32) } else { None };
                    let size = if shared_body.is_some() { if size > 1000 { 300_000 } else { 64 } } else { size };
                    let (shared_body, size) = if shared64_body.is_some() { (shared64_body, 64) } else { (shared_body, size) };
                    let stop = declared == Declared::ShortBodyThenClose;
                    reqs.push(Req::Put { path, expected, size, declared, shared_body });
                    if stop {
                        break;
                    }
                }
                55..=69 => reqs.push(Req::Delete { path, expected }),
                70..=87 => reqs.push(Req::Get { path }),
                _ => reqs.push(Req::List),
            }
        }
        clients.push(ClientProg { reqs, chunk_seed: r.next_u64(), magic: true, bye: r.coin(), pipeline: false, pad: Vec::new() });
    }
    (init, clients)
}

/// Another spelling of the same relative path.
pub fn respell(p: &str, r: &mut Rng) -> String {
    match r.below(4) {
        0 => format!("./{p}"),
        1 if p.contains('/') => p.replacen('/', "//", 1),
        2 if p.contains('/') => p.replacen('/', "/./", 1),
        _ => format!("././{p}"),
    }
}

/// One injected errno on a file-system call of server `srv`, or (one case in eight) a short write.
pub fn gen_io_fault(r: &mut Rng, srv: u32) -> (u32, u32, u8) {
    let k = r.below(HUB_FAULT_KINDS.len() as u64 + 1) as u8;
    let nth = match HUB_FAULT_KINDS.get(k as usize) {
        Some(OpKind::Write | OpKind::Read | OpKind::Open) | None => 1 + r.below(12) as u32,
        _ => 1 + r.below(4) as u32,
    };
    (srv, nth, k)
}

/// Tiny pipes make every byte a scheduling step: use them only when all bodies are small.
pub fn pick_pipe_cap(r: &mut Rng, clients: &[ClientProg]) -> u32 {
    let max_body = clients
        .iter()
        .flat_map(|c| c.reqs.iter())
        .map(|q| match q {
            Req::Put { size, .. } => *size,
            _ => 0,
        })
        .max()
        .unwrap_or(0);
    if max_body <= 300 {
        *r.pick(&[1u32, 7, 64, 4096, 65536])
    } else if max_body <= 80_000 {
        *r.pick(&[4096u32, 65536, 65536, 1 << 20])
    } else {
        *r.pick(&[65536u32, 65536, 1 << 20])
    }
}

pub fn shrink_hub(sc: &HubSc) -> Vec<HubSc> {
    let mut out = Vec::new();
    // drop a client
    if sc.clients.len() > 1 {
        for i in 0..sc.clients.len() {
            let mut c = sc.clients.clone();
            c.remove(i);
            let mut s = sc.clone();
            s.clients = c;
            if let Some((k, _, _)) = s.kill {
                if k as usize >= s.clients.len() {
                    s.kill = None;
                }
            }
            out.push(s);
        }
    }
    // drop a request
    for i in 0..sc.clients.len() {
        for j in 0..sc.clients[i].reqs.len() {
            let mut s = sc.clone();
            s.clients[i].reqs.remove(j);
            out.push(s);
        }
    }
    // shrink sizes, simplify
    for i in 0..sc.clients.len() {
        for j in 0..sc.clients[i].reqs.len() {
            if let Req::Put { path, expected, size, declared, shared_body } = &sc.clients[i].reqs[j] {
                if *size > 64 {
                    let mut s = sc.clone();
                    s.clients[i].reqs[j] = Req::Put { path: path.clone(), expected: expected.clone(), size: 32, declared: declared.clone(), shared_body: *shared_body };
                    out.push(s);
                }
            }
        }
    }
    if !sc.init.is_empty() {
        for i in 0..sc.init.len() {
            let mut s = sc.clone();
            s.init.remove(i);
            out.push(s);
        }
    }
    if sc.short_read_pct > 0 {
        let mut s = sc.clone();
        s.short_read_pct = 0;
        out.push(s);
    }
    if sc.policy.kind != 3 {
        // fewer preemptions: sticky with a low switch rate, then sequential
        let mut s = sc.clone();
        s.policy = PolicySpec { kind: 1, a: 3, b: 0 };
        if sc.policy.kind != 1 || sc.policy.a > 3 {
            out.push(s);
        }
    }
    out
}

pub fn hub_probes(rep: &mut RunReport, run: &HubRun) {
    let ops = all_ops(&run.logs);
    let mut overlap_puts = false;
    for a in &ops {
        for b in &ops {
            if a.client < b.client {
                if let (OpKindH::Put { path: pa, .. }, OpKindH::Put { path: pb, .. }) = (&a.kind, &b.kind) {
                    if norm_path(pa) == norm_path(pb) {
                        if let (Some((ra, _)), Some((rb, _))) = (&a.resp, &b.resp) {
                            if a.inv < *rb && b.inv < *ra {
                                overlap_puts = true;
                            }
                        }
                    }
                }
            }
        }
    }
    if overlap_puts {
        rep.probe("overlapping_puts_same_path", 1);
    }
    for o in &ops {
        match &o.resp {
            Some((_, Reply::PutResult { committed: false, .. })) => rep.probe("stale_cas_conflict_copy", 1),
            Some((_, Reply::PutResult { committed: true, .. })) => rep.probe("put_committed", 1),
            Some((_, Reply::DeleteResult { deleted: true, .. })) => rep.probe("delete_committed", 1),
            Some((_, Reply::DeleteResult { deleted: false, .. })) => rep.probe("delete_refused", 1),
            Some((_, Reply::Content { .. })) => rep.probe("get_content", 1),
            Some((_, Reply::Error(_))) => rep.probe("error_reply", 1),
            _ => {}
        }
    }
    rep.fault("short_reads", run.out.stats.short_reads);
    rep.fault("context_switches", run.out.stats.switches);
}

impl Check for C03 {
    type Sc = HubSc;
    fn id(&self) -> &'static str {
        "C03"
    }
    fn level(&self) -> &'static str {
        "exploration"
    }
    fn rule(&self) -> String {
        "one run = N in 2..4 real `copia serve` processes on one root, each driven by a client actor with 2..5 requests over {Put, Delete, Get, List} on 1..3 shared and private paths (expected = None / initial hash / last hash this client learned / stale), unique Put bodies 24 B..600 KiB sent in seeded pieces; the seeded scheduler (uniform, sticky, PCT d<=3, sequential) interleaves every file-system, flock and pipe step of all processes. The recorded invoke/response history (stamped with the kernel's global step number) is searched for a linearization (Wing-Gong-Lowe) against a sequential CAS map whose final state must equal the final hub tree. Fault batch (a quarter of the runs): one server is killed before a seeded file-system call, or one of its write/rename/open/mkdir/unlink/fsync/read calls fails with EIO/ENOSPC/EACCES, or one of its file writes is short (judged like a fault-free run); a request that server left unanswered may take effect at any point after it was sent or never, a request it answered with Error must have changed nothing, its listing may omit (never misreport) files, every other reply and the final tree are judged exactly as before. Non-trivial = two Puts on one path overlapped in time or a fault fired; distinct = hash of the interleaved op trace".into()
    }
    fn assumptions(&self) -> Vec<String> {
        vec![
            "one shim call = one atomic step; flock is advisory and released on close/death; rename is atomic".into(),
            "clients use the real wire.rs encoder/decoder".into(),
            "histories are capped at 24 ops so the search stays exact; a capped search counts as skipped, never as a pass or failure".into(),
        ]
    }
    fn components(&self) -> Value {
        json!({"real": ["copia serve (serve.rs, wire.rs, meta.rs) x N processes", "wire.rs codec in the clients"], "simulated": ["file system", "flock", "pipes", "process scheduling", "client actors", "server kill before the k-th file-system call", "injected errno on one server file-system call"]})
    }
    fn runs(&self, tier: Tier) -> u64 {
        match tier {
            Tier::Quick => 12_000,
            Tier::Thorough => 1_500_000,
        }
    }
    fn generate(&self, seed: u64, _tier: Tier) -> HubSc {
        let mut r = Rng::new(seed);
        let n = r.urange(2, 4);
        let (init, clients) = gen_clients(&mut r, n, false, 5);
        let pipe_cap = pick_pipe_cap(&mut r, &clients);
        let mut sc = HubSc {
            seed: r.next_u64(),
            init,
            clients,
            policy: PolicySpec::random(&mut r),
            pipe_cap,
            short_read_pct: *r.pick(&[0u32, 10, 50]),
            kill: None,
            sentinels: false,
            io_fault: None,
        };
        // fault batch (a quarter of the runs): one server is killed before a seeded file-system
        // call, or one of its file-system calls fails
        if r.below(4) == 0 {
            let srv = r.below(n as u64) as u32;
            if r.coin() {
                sc.kill = Some((srv, 1 + r.below(60) as u32, r.below(2) as u8));
            } else {
                sc.io_fault = Some(gen_io_fault(&mut r, srv));
            }
        }
        sc
    }
    fn execute(&self, sc: &HubSc) -> RunReport {
        let mut rep = RunReport::default();
        let run = run_hub(sc, None);
        rep.execs = 1;
        rep.steps = run.out.stats.steps;
        rep.shape = run.out.shape;
        hub_probes(&mut rep, &run);
        rep.nontrivial = rep.probes.contains_key("overlapping_puts_same_path");
        let _ = &sc.io_fault;
        if run.out.budget_exceeded {
            rep.harness_error = Some("op budget exceeded (scenario too large, not a verdict)".into());
            return rep;
        }
        if run.out.deadlock {
            let tail: Vec<String> = run.out.trace.iter().rev().take(if std::env::var("SIMCHECK_DEBUG").is_ok() { 100000 } else { 30 }).rev().map(|r| format!("{} p{} {:?} {} {} ok={} n={}", r.seq, r.pid, r.kind, r.path, r.path2, r.ok, r.bytes)).collect();
            let procs: Vec<String> = run.out.procs.iter().map(|p| format!("{}:{:?}", p.role, p.exit)).collect();
            rep.fail("c03.progress", "hub-deadlock", format!("no process can make progress; procs={procs:?}\n    {}", tail.join("\n    ")));
            return rep;
        }
        // the server a fault really hit (a kill point or call number beyond what the server does
        // never fires: such a run is judged like a fault-free one)
        rep.fault("server_kill", run.out.stats.kills);
        rep.fault("injected_io_error", run.out.stats.injected_errors);
        rep.fault("short_write", run.out.stats.short_writes);
        let faulted: Option<usize> = if run.out.stats.kills > 0 {
            sc.kill.map(|(s, _, _)| s as usize)
        } else if run.out.stats.injected_errors > 0 {
            sc.io_fault.map(|(s, _, _)| s as usize)
        } else {
            None
        };
        if faulted.is_some() {
            rep.nontrivial = true;
        }
        for p in &run.out.procs {
            if p.role.starts_with("serve") && p.exit != ExitKind::Code(0) && faulted.map_or(true, |f| p.role != format!("serve{f}")) {
                rep.fail("c03.server_exit", "server-failed-on-valid-session", format!("{} exit={:?} stderr={}", p.role, p.exit, p.err_str()));
                return rep;
            }
        }
        let ops = all_ops(&run.logs);
        if ops.iter().any(|o| o.resp.is_none() && Some(o.client) != faulted) {
            rep.fail("c03.replies", "request-without-reply", ops.iter().filter(|o| o.resp.is_none()).map(|o| describe(o)).collect::<Vec<_>>().join("; "));
            return rep;
        }
        if ops.iter().any(|o| o.resp.is_none()) {
            rep.probe("request_left_unanswered_by_faulted_server", 1);
        }
        if ops.len() > 24 {
            rep.probe("history_too_long_skipped", 1);
            return rep;
        }
        let final_tree = visible_tree(&run.out.world);
        let init: Model = run.init.clone();
        let mut w = Wgl::new(ops.clone(), &final_tree, Relax::Nothing);
        w.faulted_client = faulted;
        match w.search(&init) {
            Some(true) => {
                rep.probe("linearized", 1);
            }
            None => rep.probe("wgl_cap_skipped", 1),
            Some(false) => {
                // classify: which relaxation makes it linearizable?
                let relaxed = |rx: Relax| {
                    let mut w = Wgl::new(ops.clone(), &final_tree, rx);
                    w.faulted_client = faulted;
                    w.search(&init) == Some(true)
                };
                let class = if relaxed(Relax::ListReplies) {
                    "list-snapshot-not-atomic"
                } else if relaxed(Relax::GetReplies) {
                    "get-reply-not-atomic"
                } else if run.out.stats.injected_errors > 0 {
                    "not-linearizable-after-server-io-error"
                } else if run.out.stats.kills > 0 {
                    "not-linearizable-after-server-kill"
                } else {
                    "cas-history-not-linearizable"
                };
                let hist = ops.iter().map(|o| describe(o)).collect::<Vec<_>>().join("\n    ");
                let ft = final_tree.iter().map(|(k, v)| format!("{k}:{}", short_hex(&b3(v)))).collect::<Vec<_>>().join(", ");
                rep.fail("c03.linearizable", class, format!("no sequential CAS execution explains the replies and the final tree.\n    {hist}\n    final hub tree: {{{ft}}}"));
            }
        }
        rep.end_state = fnv(&[crate::gen::fnv_bytes(format!("{:?}", final_tree.keys().collect::<Vec<_>>()).as_bytes())]);
        rep
    }
    fn shrink(&self, sc: &HubSc) -> Vec<HubSc> {
        shrink_hub(sc)
    }
    fn expected_probes(&self) -> Vec<&'static str> {
        vec!["overlapping_puts_same_path", "stale_cas_conflict_copy", "put_committed", "delete_committed", "linearized", "request_left_unanswered_by_faulted_server"]
    }
}
