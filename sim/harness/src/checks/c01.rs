//! C01 — delta round-trip, engine independence, under arbitrary I/O schedules.

use crate::common::*;
use crate::framework::*;
use crate::gen::*;
use copia::async_sync::AsyncCopiaSync;
use copia::{CopiaSync, Delta, DeltaOp, Signature, StrongHash, Sync as _};
use copia_simworld::kernel::{ExitKind, Fault, OpClass, ProcSel, RunCfg, World};
use copia_simworld::rng::Rng;
use copia_simworld::streams::{block_on, IoPlan, SimRead, SimWrite};
use serde::{Deserialize, Serialize};
use serde_json::{json, Value};

pub struct C01;

#[derive(Clone, Debug, Serialize, Deserialize)]
pub struct Sc {
    pub seed: u64,
    /// 0 library engines, 1 CLI signature→delta→patch chain, 2 single-file `sync`
    pub mode: u8,
    pub bs: usize,
    pub data: DataGen,
    /// inject a hard error into one stream (lib mode): (stream 0..5, at byte)
    pub hard: Option<(u8, u64)>,
    /// benign I/O faults (short reads, Interrupted, Pending) enabled
    pub benign: bool,
}

fn plans(seed: u64, benign: bool, n: usize) -> Vec<IoPlan> {
    let mut r = Rng::new(seed ^ 0xA11C_E5ED);
    (0..n)
        .map(|_| {
            if benign {
                IoPlan::random(&mut r)
            } else {
                let mut p = IoPlan::benign_none();
                p.seed = r.next_u64();
                p
            }
        })
        .collect()
}

fn check_delta_fields(d: &Delta, basis: &[u8], source: &[u8], bs: usize) -> Result<(), String> {
    if d.source_size != source.len() as u64 {
        return Err(format!("source_size {} != {}", d.source_size, source.len()));
    }
    if d.checksum != StrongHash::compute(source) {
        return Err("checksum != blake3(source)".into());
    }
    if d.block_size as usize != bs {
        return Err(format!("block_size {} != {bs}", d.block_size));
    }
    let mut sum = 0u64;
    for op in &d.ops {
        match op {
            DeltaOp::Copy { offset, len } => {
                let end = offset.checked_add(u64::from(*len)).ok_or("copy overflows")?;
                if end > basis.len() as u64 {
                    return Err(format!("copy {offset}+{len} outside basis {}", basis.len()));
                }
                sum += u64::from(*len);
            }
            DeltaOp::Literal(v) => sum += v.len() as u64,
        }
    }
    if sum != source.len() as u64 {
        return Err(format!("copy+literal {sum} != source {}", source.len()));
    }
    Ok(())
}

impl C01 {
    fn lib(&self, sc: &Sc, rep: &mut RunReport) {
        let bs = sc.bs;
        let (basis, source) = sc.data.build(bs);
        let pl = plans(sc.seed, sc.benign, 12);
        let cli_bs = CLI_BLOCK_SIZES.contains(&bs);
        rep.probe(if basis.len() > 65536 { "rayon_path" } else { "sequential_path" }, 1);
        if sc.data.kind == 3 {
            rep.probe("weak_collision_case", 1);
        }
        if sc.data.kind == 5 {
            rep.probe("unaligned_shift_case", 1);
        }
        let fail = |s: u8| -> Option<u64> {
            match sc.hard {
                Some((st, at)) if st == s => Some(at),
                _ => None,
            }
        };
        let mk = |data: &[u8], i: usize, stream: u8| {
            let mut p = pl[i].clone();
            p.fail_at = fail(stream);
            SimRead::new(data.to_vec(), p)
        };
        // --- signatures: generate (seq/par), sync trait, async; two chunkings each
        let mut r0 = mk(&basis, 0, 0);
        let sig = Signature::generate(&mut r0, bs);
        if fail(0).is_some() {
            rep.fault("hard_read_error", 1);
            match sig {
                Err(_) => return,
                Ok(s) => {
                    if fail(0).unwrap() < basis.len() as u64 {
                        rep.fail("c01.err_on_fault", "sig-ok-after-read-error",
                            format!("Signature::generate returned Ok ({} blocks) although the basis stream failed at byte {}", s.blocks.len(), fail(0).unwrap()));
                    }
                    return;
                }
            }
        }
        let sig = match sig {
            Ok(s) => s,
            Err(e) => {
                rep.fail("c01.roundtrip", "signature-error", format!("Signature::generate failed on benign stream: {e}"));
                return;
            }
        };
        rep.fault("short_reads", r0.stats.short);
        rep.fault("eintr", r0.stats.eintr);
        let mut r1 = mk(&basis, 1, 99);
        match Signature::generate(&mut r1, bs) {
            Ok(s2) if s2 == sig => {}
            Ok(_) => {
                rep.fail("c01.sig_chunking", "signature-depends-on-chunking", format!("bs={bs} len={}", basis.len()));
                return;
            }
            Err(e) => {
                rep.fail("c01.roundtrip", "signature-error", format!("{e}"));
                return;
            }
        }
        let expect_blocks = basis.len().div_ceil(bs);
        if sig.blocks.len() != expect_blocks || sig.file_size != basis.len() as u64 || sig.block_size != bs {
            rep.fail("c01.sig_shape", "signature-shape", format!("blocks {} expected {expect_blocks}", sig.blocks.len()));
            return;
        }
        if cli_bs {
            let s_sync = CopiaSync::with_block_size(bs).signature(mk(&basis, 2, 99));
            let a = AsyncCopiaSync::with_block_size(bs);
            let rd = mk(&basis, 3, 99);
            let s_async = block_on(a.signature(rd));
            match (s_sync, s_async) {
                (Ok(x), Ok(y)) => {
                    if x != sig {
                        rep.fail("c01.sig_engines", "sync-signature-differs", format!("bs={bs} len={}", basis.len()));
                        return;
                    }
                    if y != sig {
                        rep.fail("c01.sig_engines", "async-signature-differs",
                            format!("bs={bs} len={} async blocks={} sync blocks={} (plan max_chunk={})", basis.len(), y.blocks.len(), sig.blocks.len(), pl[3].max_chunk));
                        return;
                    }
                    rep.probe("async_sig_compared", 1);
                }
                (a, b) => {
                    rep.fail("c01.roundtrip", "signature-error", format!("sync={:?} async={:?}", a.err().map(|e| e.to_string()), b.err().map(|e| e.to_string())));
                    return;
                }
            }
        }
        // --- deltas
        let engine = CopiaSync::new();
        let d_sync = engine.delta(mk(&source, 4, 1), &sig);
        if let Some(at) = fail(1) {
            rep.fault("hard_read_error", 1);
            if let Ok(_) = d_sync {
                if at < source.len() as u64 {
                    rep.fail("c01.err_on_fault", "delta-ok-after-read-error", format!("at {at} of {}", source.len()));
                }
            }
            return;
        }
        let d_sync = match d_sync {
            Ok(d) => d,
            Err(e) => {
                rep.fail("c01.roundtrip", "delta-error", format!("{e}"));
                return;
            }
        };
        if let Err(m) = check_delta_fields(&d_sync, &basis, &source, bs) {
            rep.fail("c01.delta_fields", "delta-fields", m);
            return;
        }
        let d_sync2 = engine.delta(mk(&source, 5, 99), &sig);
        let d_async = block_on(AsyncCopiaSync::new().delta(mk(&source, 6, 99), &sig));
        match (d_sync2, d_async) {
            (Ok(x), Ok(y)) => {
                if x != d_sync {
                    rep.fail("c01.delta_chunking", "delta-depends-on-chunking", format!("bs={bs}"));
                    return;
                }
                if y != d_sync {
                    rep.fail("c01.delta_engines", "async-delta-differs",
                        format!("bs={bs} sync ops={} async ops={} lit sync={} async={}", d_sync.ops.len(), y.ops.len(), d_sync.bytes_literal(), y.bytes_literal()));
                    return;
                }
            }
            (a, b) => {
                rep.fail("c01.roundtrip", "delta-error", format!("{:?} {:?}", a.err().map(|e| e.to_string()), b.err().map(|e| e.to_string())));
                return;
            }
        }
        if d_sync.ops.iter().any(DeltaOp::is_copy) {
            rep.probe("delta_has_copy", 1);
        }
        if d_sync.bytes_literal() > 5000 && d_sync.ops.iter().any(DeltaOp::is_copy) {
            rep.probe("copy_after_many_slides", 1);
        }
        // --- patch, both engines
        let mut wplan = pl[9].clone();
        wplan.fail_at = fail(3);
        let mut w1 = SimWrite::new(wplan);
        let mut rb = mk(&basis, 7, 2);
        let p_sync = engine.patch(&mut rb, &d_sync, &mut w1);
        rep.fault("short_writes", w1.stats.short);
        if fail(2).is_some() || fail(3).is_some() {
            rep.fault("hard_rw_error_in_patch", 1);
            if p_sync.is_ok() && w1.sink != source {
                rep.fail("c01.err_on_fault", "patch-ok-wrong-bytes-after-io-error", format!("wrote {} of {}", w1.sink.len(), source.len()));
            }
            return;
        }
        if let Err(e) = p_sync {
            rep.fail("c01.roundtrip", "patch-error", format!("sync patch: {e}"));
            return;
        }
        if w1.sink != source {
            rep.fail("c01.roundtrip", "patch-wrong-bytes", format!("sync patch produced {} bytes, source {}", w1.sink.len(), source.len()));
            return;
        }
        let mut w2 = SimWrite::new(pl[10].clone());
        let mut rb2 = mk(&basis, 8, 99);
        let p_async = block_on(AsyncCopiaSync::new().patch(&mut rb2, &d_sync, &mut w2));
        if let Err(e) = p_async {
            rep.fail("c01.roundtrip", "patch-error", format!("async patch: {e}"));
            return;
        }
        if w2.sink != source {
            rep.fail("c01.roundtrip", "patch-wrong-bytes", format!("async patch produced {} bytes, source {}", w2.sink.len(), source.len()));
            return;
        }
        for (off, n) in rb.served.iter().chain(rb2.served.iter()) {
            if off + *n as u64 > basis.len() as u64 {
                rep.fail("c01.bounds", "read-outside-basis", format!("{off}+{n}"));
            }
        }
        rep.fault("pending", rb2.stats.pending);
    }

    fn cli(&self, sc: &Sc, rep: &mut RunReport) {
        let bs = sc.bs;
        let (basis, source) = sc.data.build(bs);
        let mut w = World::new();
        let t = w.clock_ns;
        w.host("local").put_file("/w/basis", &basis, t);
        w.host("local").put_file("/w/source", &source, t);
        w.host("local").mkdir_p("/home/u", t);
        let mut r = Rng::new(sc.seed);
        let mut cfg = RunCfg::default();
        cfg.seed = r.next_u64();
        cfg.short_read_pct = if sc.benign { *r.pick(&[0u32, 20, 60]) } else { 0 };
        cfg.record_trace = false;
        let env = env_of(&[("HOME", "/home/u")]);
        let bss = bs.to_string();
        let cmds: Vec<Vec<String>> = if sc.mode == 1 {
            vec![
                sv(&["copia", "signature", "/w/basis", "-o", "/w/b.sig", "-b", &bss]),
                sv(&["copia", "delta", "/w/source", "/w/b.sig", "-o", "/w/d.delta"]),
                sv(&["copia", "patch", "/w/basis", "/w/d.delta", "-o", "/w/out"]),
            ]
        } else {
            vec![sv(&["copia", "sync", "/w/source", "/w/dst", "-b", &bss])]
        };
        if sc.mode == 2 {
            // destination state: absent / identical / the basis
            match sc.seed % 3 {
                0 => {}
                1 => w.host("local").put_file("/w/dst", &source, t),
                _ => w.host("local").put_file("/w/dst", &basis, t),
            }
        }
        let before: Tree = tree_bytes(&w, "local", "/w");
        let mut world = w;
        let mut crashed_before = false;
        if sc.mode == 2 && sc.seed % 4 == 0 {
            // history: an earlier single-file sync of a LONGER source to the same destination was
            // killed before one of its file-system-mutating calls (whatever it staged stays behind);
            // the run under test must still make the destination exactly its own source
            let mut long = source.clone();
            let extra_len = 3000 + r.usize_below(40_000);
            long.extend(r.bytes(extra_len));
            let t = world.clock_ns;
            world.host("local").put_file("/w/longer", &long, t);
            let mut kc = cfg.clone();
            kc.faults.push(Fault::KillAtOp { target: ProcSel::Role("copia".into()), nth: 1 + (sc.seed >> 3) as u32 % 5, class: OpClass::Mutating });
            let out = run_one(world, kc, "copia", "local", &sv(&["copia", "sync", "/w/longer", "/w/dst", "-b", &bss]), env.clone());
            rep.execs += 1;
            rep.fault("earlier_run_killed", out.stats.kills);
            crashed_before = out.stats.kills > 0;
            world = out.world;
            world.host("local").remove_file("/w/longer");
        }
        for c in &cmds {
            let out = run_one(world, cfg.clone(), "copia", "local", c, env.clone());
            rep.steps += out.stats.steps;
            rep.execs += 1;
            rep.fault("short_reads", out.stats.short_reads);
            let p = &out.procs[0];
            if p.exit != ExitKind::Code(0) {
                rep.fail("c01.cli", "cli-nonzero", format!("{:?} exit={:?} stderr={}", c, p.exit, p.err_str()));
                return;
            }
            world = out.world;
        }
        let after = tree_bytes(&world, "local", "/w");
        if sc.mode == 1 {
            if after.get("out") != Some(&source) {
                rep.fail("c01.roundtrip", "cli-chain-wrong-bytes", format!("out len {:?} source {}", after.get("out").map(Vec::len), source.len()));
                return;
            }
            // engine independence: files equal the library's sync-engine results
            let sig = Signature::generate(&mut &basis[..], bs).unwrap();
            let delta = CopiaSync::new().delta(&source[..], &sig).unwrap();
            if after.get("b.sig") != Some(&bincode::serialize(&sig).unwrap()) {
                rep.fail("c01.sig_engines", "cli-signature-differs", format!("bs={bs} len={}", basis.len()));
                return;
            }
            if after.get("d.delta") != Some(&bincode::serialize(&delta).unwrap()) {
                rep.fail("c01.delta_engines", "cli-delta-differs", format!("bs={bs}"));
                return;
            }
            if after.get("basis") != before.get("basis") || after.get("source") != before.get("source") {
                rep.fail("c01.cli", "cli-inputs-modified", String::new());
            }
        } else {
            if after.get("dst") != Some(&source) {
                rep.fail("c01.roundtrip", "single-sync-wrong-bytes", format!("dst len {:?} source {}", after.get("dst").map(Vec::len), source.len()));
                return;
            }
            let extra: Vec<&String> = after.keys().filter(|k| !["basis", "source", "dst"].contains(&k.as_str())).collect();
            if !extra.is_empty() && !crashed_before {
                rep.fail("c01.cli", "single-sync-leftover", format!("{extra:?}"));
            }
        }
    }
}

impl Check for C01 {
    type Sc = Sc;
    fn id(&self) -> &'static str {
        "C01"
    }
    fn level(&self) -> &'static str {
        "exploration"
    }
    fn rule(&self) -> String {
        "one run = one seeded (basis, source, block size, engine mode, I/O schedule): data from 7 structural generators (random, repeated blocks, edits, weak-checksum collisions, identical, shifted by 1..8000 bytes, 0xFF-heavy), sizes 0..>64 KiB, block sizes = the 8 CLI sizes or any 1..70000 at library level; each stream gets its own seeded chunking/Interrupted/Pending plan. Non-trivial = the delta contains at least one copy and one literal op or the CLI ran; distinct = hash of (mode, block size, data-generator kind, basis blocks, op-shape of the delta, chunk plan)".into()
    }
    fn assumptions(&self) -> Vec<String> {
        vec![
            "inputs and block sizes are sampled, not enumerated; the simulator contributes the I/O-schedule dimension and the engine differential".into(),
            "rayon's pool is outside the seam (order-independent result)".into(),
        ]
    }
    fn components(&self) -> Value {
        json!({"real": ["copia::{CopiaSync, AsyncCopiaSync, Signature, Delta}", "copia CLI signature/delta/patch/sync"], "simulated": ["Read/Seek/Write/AsyncRead/AsyncSeek/AsyncWrite streams", "file system under the CLI", "tokio task scheduling"]})
    }
    fn runs(&self, tier: Tier) -> u64 {
        match tier {
            Tier::Quick => 12_000,
            Tier::Thorough => 1_500_000,
        }
    }
    fn generate(&self, seed: u64, _tier: Tier) -> Sc {
        let mut r = Rng::new(seed);
        let mode = match r.below(10) {
            0 => 1,
            1 => 2,
            _ => 0,
        };
        let bs = if mode != 0 || r.below(3) > 0 {
            *r.pick(&CLI_BLOCK_SIZES[..if mode == 0 { 8 } else { 6 }])
        } else {
            match r.below(4) {
                0 => 1 + r.usize_below(16),
                1 => 1 + r.usize_below(700),
                2 => 65537 + r.usize_below(4000),
                _ => 1 + r.usize_below(5000),
            }
        };
        let max_bytes = if r.below(6) == 0 { 200_000 } else { 40_000 };
        let mut data = DataGen::random(&mut r, bs, max_bytes);
        let mut bs = bs;
        // rarely, at library level: a basis of 1..2.5 MiB (beyond any internal window or buffer a
        // signature/delta implementation might use) with a block size that divides no power of two
        if mode == 0 && r.below(150) == 0 {
            bs = *r.pick(&[700usize, 1000, 3000, 4097, 6000, 333]);
            let total = (1usize << 20) + r.usize_below(3 << 19);
            data = DataGen { seed: r.next_u64(), kind: 2, basis_blocks: (total / bs) as u32, basis_tail: r.below(bs as u64) as u32, edits: r.range(1, 3) as u32, src_extra: r.below(2000) as u32 };
        }
        let hard = if mode == 0 && r.below(8) == 0 {
            Some((r.below(4) as u8, r.below(60_000)))
        } else {
            None
        };
        Sc {
            seed: r.next_u64(),
            mode,
            bs,
            data,
            hard,
            benign: r.below(4) != 0,
        }
    }
    fn execute(&self, sc: &Sc) -> RunReport {
        let mut rep = RunReport::default();
        rep.execs = 0;
        match sc.mode {
            0 => {
                self.lib(sc, &mut rep);
                rep.execs = 1;
            }
            _ => self.cli(sc, &mut rep),
        }
        rep.nontrivial = sc.mode != 0
            || (rep.probes.contains_key("delta_has_copy"));
        rep.shape = fnv(&[
            u64::from(sc.mode),
            sc.bs as u64,
            u64::from(sc.data.kind),
            u64::from(sc.data.basis_blocks),
            u64::from(sc.data.basis_tail > 0),
            u64::from(sc.data.edits),
            u64::from(sc.benign),
            sc.seed % 64,
        ]);
        rep
    }
    fn shrink(&self, sc: &Sc) -> Vec<Sc> {
        let mut out: Vec<Sc> = sc
            .data
            .shrink()
            .into_iter()
            .map(|d| Sc { data: d, ..sc.clone() })
            .collect();
        if sc.benign {
            out.push(Sc { benign: false, ..sc.clone() });
        }
        if sc.hard.is_some() {
            out.push(Sc { hard: None, ..sc.clone() });
        }
        out
    }
    fn expected_probes(&self) -> Vec<&'static str> {
        vec!["rayon_path", "weak_collision_case", "unaligned_shift_case", "async_sig_compared", "copy_after_many_slides"]
    }
}
