//! Shared machinery for the hub properties (C03, C10, C11, C12, C13): N real
//! `copia serve` processes on one root, client actors speaking the wire protocol over
//! simulated pipes, recorded invoke/response history, sequential CAS model, WGL search.

use crate::common::*;
use crate::copia_main::verif_entry::{read_frame, write_frame, write_magic, Request, Response};
use copia_simworld::kernel::*;
use copia_simworld::rng::Rng;
use copia_simworld::shim::std_io as sio;
use serde::{Deserialize, Serialize};
use std::collections::{BTreeMap, BTreeSet, HashSet};
use std::io::{BufReader, Read, Write};
use std::sync::{Arc, Mutex};

pub const HUB: &str = "hub";
pub const ROOT: &str = "/srv/hub";
pub type Hash = [u8; 32];

#[derive(Clone, Copy, Debug, Serialize, Deserialize, PartialEq)]
pub enum Exp {
    None,
    /// hash of the content the hub was started with at this path (None if absent)
    Initial,
    /// whatever this client last learned about the path from its own replies
    Learned,
    /// hash of body number k of this scenario's body universe (usually stale)
    OfBody(u32),
    /// hash of the 64-byte body number t that all clients share (`shared_body: Some(t)`)
    OfShared(u32),
}

/// The 64-byte body number `t` shared by all clients, and the conflict-copy name it gets next to `p`.
pub fn shared64(t: u32) -> Vec<u8> {
    put_body(99, t as usize, 64)
}
pub fn conflict_name_of_shared(p: &str, t: u32) -> String {
    format!("{p}.conflict-{}", short_hex(&b3(&shared64(t))))
}

#[derive(Clone, Debug, Serialize, Deserialize, PartialEq)]
pub enum Declared {
    Valid,
    /// declared hash differs from the body's hash
    WrongHash,
    /// `len` says more than is sent, then the client closes
    ShortBodyThenClose,
    /// more bytes follow than `len` says (they are parsed as the next frame)
    ExcessBytes(u32),
}

#[derive(Clone, Debug, Serialize, Deserialize, PartialEq)]
pub enum Req {
    Put {
        path: String,
        expected: Exp,
        size: u32,
        declared: Declared,
        /// Some(t): the body is taken from a universe shared by all clients (two clients may
        /// put the very same bytes, to the same or different paths); None: unique per request
        #[serde(default)]
        shared_body: Option<u32>,
    },
    Delete { path: String, expected: Exp },
    Get { path: String },
    List,
    Hello,
    /// raw bytes written as they are (C12); `expect_replies` frames are then read
    Raw { hex: String, expect_replies: u32 },
    /// close the sending side now
    CloseInput,
}

#[derive(Clone, Debug, Serialize, Deserialize)]
pub struct ClientProg {
    pub reqs: Vec<Req>,
    pub chunk_seed: u64,
    /// send the COPIA1 prologue first
    pub magic: bool,
    pub bye: bool,
    /// pipelined client: send every request (with its content) before reading any reply
    #[serde(default)]
    pub pipeline: bool,
    /// (request index, hex bytes): extra bytes placed INSIDE that request's frame, after the CBOR
    /// item (the length prefix covers them). The frame is still well-formed: the item is complete.
    #[serde(default)]
    pub pad: Vec<(u32, String)>,
}

#[derive(Clone, Debug, Serialize, Deserialize)]
pub struct PolicySpec {
    pub kind: u8,
    pub a: u32,
    pub b: u32,
}

impl PolicySpec {
    pub fn random(r: &mut Rng) -> Self {
        match r.below(10) {
            0 => PolicySpec { kind: 3, a: 0, b: 0 },
            1..=3 => PolicySpec { kind: 0, a: 0, b: 0 },
            4..=6 => PolicySpec { kind: 1, a: *r.pick(&[2u32, 5, 15, 40]), b: 0 },
            _ => PolicySpec { kind: 2, a: r.range(1, 3) as u32, b: *r.pick(&[60u32, 200, 600]) },
        }
    }
    pub fn to_policy(&self) -> Policy {
        match self.kind {
            0 => Policy::Uniform,
            1 => Policy::Sticky { switch_pct: self.a },
            2 => Policy::Pct { depth: self.a, est_steps: self.b },
            _ => Policy::Sequential,
        }
    }
}

#[derive(Clone, Debug, Serialize, Deserialize)]
pub struct HubSc {
    pub seed: u64,
    /// initial hub tree: (path, body id)
    pub init: Vec<(String, u32)>,
    pub clients: Vec<ClientProg>,
    pub policy: PolicySpec,
    pub pipe_cap: u32,
    pub short_read_pct: u32,
    /// kill server i before its nth op of class (0 any fs call, 1 mutating)
    pub kill: Option<(u32, u32, u8)>,
    /// files outside ROOT (sentinels), for C11
    pub sentinels: bool,
    /// make the nth op of kind HUB_FAULT_KINDS[k] of server i fail (errno by nth % 3);
    /// k == HUB_FAULT_KINDS.len(): the nth file write of server i is a short write
    #[serde(default)]
    pub io_fault: Option<(u32, u32, u8)>,
}

pub const HUB_FAULT_KINDS: [OpKind; 7] = [OpKind::Write, OpKind::Rename, OpKind::Open, OpKind::Mkdir, OpKind::Unlink, OpKind::Fsync, OpKind::Read];

/// Body of Put number `idx` of client `client`: unique, attributable.
pub fn put_body(client: usize, idx: usize, size: u32) -> Vec<u8> {
    let mut v = format!("<put c{client} #{idx} n{size}>").into_bytes();
    let fill = (b'a' + ((client * 7 + idx) % 26) as u8) as char;
    while v.len() < size as usize {
        v.push(fill as u8);
    }
    v
}

/// Body `k` of the scenario's initial-content universe.
pub fn init_body(k: u32) -> Vec<u8> {
    let mut v = format!("<init {k}>").into_bytes();
    if k % 5 == 4 {
        v.extend(std::iter::repeat(b'I').take(40_000));
    }
    v
}

#[derive(Clone, Debug, PartialEq)]
pub enum Reply {
    Hello,
    Fingerprints(BTreeMap<String, Hash>),
    Content { len: u64, hash: Hash, body: Vec<u8> },
    PutResult { committed: bool, current: Option<Hash> },
    DeleteResult { deleted: bool, current: Option<Hash> },
    Error(String),
}

#[derive(Clone, Debug)]
pub enum OpKindH {
    Put { path: String, expected: Option<Hash>, body: Vec<u8>, declared_hash: Hash, declared: Declared },
    Delete { path: String, expected: Option<Hash> },
    Get { path: String },
    List,
    Hello,
    Raw,
}

#[derive(Clone, Debug)]
pub struct HOp {
    pub client: usize,
    pub idx: usize,
    pub kind: OpKindH,
    pub inv: u64,
    /// None = no reply received (peer died / stream ended)
    pub resp: Option<(u64, Reply)>,
    pub note: String,
}

#[derive(Default)]
pub struct ClientLog {
    pub ops: Vec<HOp>,
    pub raw_replies: Vec<Reply>,
    pub stream_error: Option<String>,
    pub eof_seen: bool,
}

fn now_seq() -> u64 {
    peek(|st, _| st.seq)
}

fn conv(resp: Response) -> Reply {
    match resp {
        Response::Hello { .. } => Reply::Hello,
        Response::Fingerprints(m) => Reply::Fingerprints(m.into_iter().map(|(k, f)| (k, f.blake3)).collect()),
        Response::Content { len, hash } => Reply::Content { len, hash, body: Vec::new() },
        Response::PutResult { committed, current } => Reply::PutResult { committed, current },
        Response::DeleteResult { deleted, current } => Reply::DeleteResult { deleted, current },
        Response::Error(s) => Reply::Error(s),
    }
}

fn unhex(s: &str) -> Vec<u8> {
    (0..s.len() / 2)
        .map(|i| u8::from_str_radix(&s[2 * i..2 * i + 2], 16).unwrap_or(0))
        .collect()
}

struct ClientOut {
    closed: bool,
}

impl ClientOut {
    /// write in seeded pieces ("content delivered in several pieces")
    fn send(&mut self, data: &[u8], r: &mut Rng) -> std::io::Result<()> {
        if self.closed {
            return Err(std::io::Error::from(std::io::ErrorKind::BrokenPipe));
        }
        let mut off = 0;
        let mut out = sio::stdout();
        while off < data.len() {
            let rem = data.len() - off;
            let n = match r.below(4) {
                0 => 1 + r.usize_below(rem.min(7)),
                1 => 1 + r.usize_below(rem.min(4096)),
                _ => rem,
            };
            out.write_all(&data[off..off + n])?;
            off += n;
        }
        Ok(())
    }
    fn close(&mut self) {
        if !self.closed {
            self.closed = true;
            // closing fd 1 of this process: release the pipe's write end
            copia_simworld::kernel::direct(OpKind::PipeClose, |st, rec| {
                let pid = rec.pid;
                let fd = st.procs[pid as usize].stdio[1];
                if let Fd::Pipe { id, write: true } = fd {
                    st.pipes[id].writers = st.pipes[id].writers.saturating_sub(1);
                    st.procs[pid as usize].stdio[1] = Fd::Null;
                    rec.path = format!("pipe:{id}");
                }
            });
        }
    }
}

pub fn client_main(
    me: usize,
    prog: ClientProg,
    init: BTreeMap<String, Vec<u8>>,
    log: Arc<Mutex<ClientLog>>,
) -> i32 {
    let mut r = Rng::new(prog.chunk_seed);
    let mut out = ClientOut { closed: false };
    let mut rd = BufReader::with_capacity(8192, sio::stdin());
    let mut known: BTreeMap<String, Option<Hash>> = BTreeMap::new();
    let push = |op: HOp| log.lock().unwrap().ops.push(op);
    if prog.magic {
        let mut buf = Vec::new();
        let _ = write_magic(&mut buf);
        if out.send(&buf, &mut r).is_err() {
            return 1;
        }
    }
    let mut failed = false;
    let mut deferred: Vec<HOp> = Vec::new();
    let mut send_failed = false;
    for (idx, req) in prog.reqs.iter().enumerate() {
        let resolve = |e: &Exp, path: &str, known: &BTreeMap<String, Option<Hash>>| -> Option<Hash> {
            let path = &norm_path(path)[..];
            match e {
                Exp::None => None,
                Exp::Initial => init.get(path).map(|b| b3(b)),
                Exp::Learned => known.get(path).copied().flatten().or_else(|| {
                    if known.contains_key(path) {
                        None
                    } else {
                        init.get(path).map(|b| b3(b))
                    }
                }),
                Exp::OfBody(k) => Some(b3(&init_body(*k))),
                Exp::OfShared(t) => Some(b3(&shared64(*t))),
            }
        };
        let mut frame = Vec::new();
        let (kind, payload): (OpKindH, Vec<u8>) = match req {
            Req::Hello => {
                let _ = write_frame(&mut frame, &Request::Hello { version: 1 });
                (OpKindH::Hello, Vec::new())
            }
            Req::List => {
                let _ = write_frame(&mut frame, &Request::List);
                (OpKindH::List, Vec::new())
            }
            Req::Get { path } => {
                let _ = write_frame(&mut frame, &Request::Get { path: path.clone() });
                (OpKindH::Get { path: path.clone() }, Vec::new())
            }
            Req::Delete { path, expected } => {
                let e = resolve(expected, path, &known);
                let _ = write_frame(&mut frame, &Request::Delete { path: path.clone(), expected: e });
                (OpKindH::Delete { path: path.clone(), expected: e }, Vec::new())
            }
            Req::Put { path, expected, size, declared, shared_body } => {
                let body = match shared_body {
                    Some(t) => put_body(99, *t as usize, (*size).max(24)),
                    None if *size == 0 => Vec::new(),
                    None => put_body(me, idx, (*size).max(24)),
                };
                let e = resolve(expected, path, &known);
                let mut h = b3(&body);
                let mut len = body.len() as u64;
                let mut payload = body.clone();
                match declared {
                    Declared::Valid => {}
                    Declared::WrongHash => h[0] ^= 0x5A,
                    Declared::ShortBodyThenClose => {
                        len += 1 + r.below(5000);
                    }
                    Declared::ExcessBytes(n) => {
                        payload.extend(std::iter::repeat(0xEEu8).take(*n as usize));
                    }
                }
                let _ = write_frame(&mut frame, &Request::Put { path: path.clone(), expected: e, len, hash: h });
                (
                    OpKindH::Put { path: path.clone(), expected: e, body, declared_hash: h, declared: declared.clone() },
                    payload,
                )
            }
            Req::Raw { hex, .. } => {
                frame = unhex(hex);
                (OpKindH::Raw, Vec::new())
            }
            Req::CloseInput => {
                out.close();
                continue;
            }
        };
        if let Some((_, hex)) = prog.pad.iter().find(|(i, _)| *i as usize == idx) {
            if frame.len() >= 4 && !matches!(kind, OpKindH::Raw) {
                let extra = unhex(hex);
                let len = u32::from_be_bytes([frame[0], frame[1], frame[2], frame[3]]) + extra.len() as u32;
                frame[..4].copy_from_slice(&len.to_be_bytes());
                frame.extend(extra);
            }
        }
        let inv = now_seq();
        let mut op = HOp { client: me, idx, kind: kind.clone(), inv, resp: None, note: String::new() };
        let sent = out.send(&frame, &mut r).and_then(|()| out.send(&payload, &mut r));
        if prog.pipeline && sent.is_ok() {
            // reply is collected after everything has been sent
            deferred.push(op);
            continue;
        }
        if let Err(e) = sent {
            op.note = format!("send failed: {e}");
            if prog.pipeline {
                // the replies to what was sent before are still collected below; this request
                // joins the queue so that the log keeps request order
                send_failed = true;
                deferred.push(op);
            } else {
                push(op);
                failed = true;
            }
            break;
        }
        if let OpKindH::Put { declared: Declared::ShortBodyThenClose, .. } = &kind {
            out.close();
        }
        let nreplies = match req {
            Req::Raw { expect_replies, .. } => *expect_replies,
            _ => 1,
        };
        let mut stop = false;
        for _ in 0..nreplies {
            match read_frame::<_, Response>(&mut rd) {
                Ok(Some(resp)) => {
                    let mut rep = conv(resp);
                    if let Reply::Content { len, body, .. } = &mut rep {
                        // the announced number of content bytes follows the frame
                        let mut got = vec![0u8; 0];
                        let mut left = *len;
                        let mut buf = vec![0u8; 65536];
                        while left > 0 {
                            let want = (left as usize).min(buf.len());
                            match rd.read(&mut buf[..want]) {
                                Ok(0) => break,
                                Ok(n) => {
                                    got.extend_from_slice(&buf[..n]);
                                    left -= n as u64;
                                }
                                Err(_) => break,
                            }
                        }
                        *body = got;
                    }
                    match (&kind, &rep) {
                        (OpKindH::Put { path, body, .. }, Reply::PutResult { committed, current }) => {
                            known.insert(norm_path(path), if *committed { Some(b3(body)) } else { *current });
                        }
                        (OpKindH::Delete { path, .. }, Reply::DeleteResult { deleted, current }) => {
                            known.insert(norm_path(path), if *deleted { None } else { *current });
                        }
                        (OpKindH::Get { path }, Reply::Content { hash, .. }) => {
                            known.insert(norm_path(path), Some(*hash));
                        }
                        (OpKindH::Get { path }, Reply::Error(_)) => {
                            known.insert(norm_path(path), None);
                        }
                        (OpKindH::List, Reply::Fingerprints(m)) => {
                            for k in known.keys().cloned().collect::<Vec<_>>() {
                                known.insert(k, None);
                            }
                            for (k, v) in m {
                                known.insert(k.clone(), Some(*v));
                            }
                        }
                        _ => {}
                    }
                    if matches!(kind, OpKindH::Raw) {
                        log.lock().unwrap().raw_replies.push(rep.clone());
                    }
                    op.resp = Some((now_seq(), rep));
                }
                Ok(None) => {
                    log.lock().unwrap().eof_seen = true;
                    op.note = "EOF instead of reply".into();
                    stop = true;
                    break;
                }
                Err(e) => {
                    log.lock().unwrap().stream_error = Some(e.to_string());
                    op.note = format!("reply stream error: {e}");
                    stop = true;
                    break;
                }
            }
        }
        push(op);
        if stop {
            failed = true;
            break;
        }
    }
    // pipelined client: now collect one reply per request sent, in order
    let _ = send_failed;
    for mut op in deferred {
        if failed {
            // the session ended at an earlier request: like a sequential client, which would never
            // have sent these, they are not part of the history
            break;
        }
        if op.note.starts_with("send failed") {
            push(op);
            failed = true;
            break;
        }
        match read_frame::<_, Response>(&mut rd) {
            Ok(Some(resp)) => {
                let mut rep = conv(resp);
                if let Reply::Content { len, body, .. } = &mut rep {
                    let mut got = Vec::new();
                    let mut left = *len;
                    let mut buf = vec![0u8; 65536];
                    while left > 0 {
                        let want = (left as usize).min(buf.len());
                        match rd.read(&mut buf[..want]) {
                            Ok(0) | Err(_) => break,
                            Ok(n) => {
                                got.extend_from_slice(&buf[..n]);
                                left -= n as u64;
                            }
                        }
                    }
                    *body = got;
                }
                op.resp = Some((now_seq(), rep));
            }
            Ok(None) => {
                op.note = "EOF instead of reply".into();
                log.lock().unwrap().eof_seen = true;
                failed = true;
            }
            Err(e) => {
                op.note = format!("reply stream error: {e}");
                log.lock().unwrap().stream_error = Some(e.to_string());
                failed = true;
            }
        }
        push(op);
    }
    // a client whose reply stream broke just goes away (like hub.rs erroring out)
    if prog.bye && !out.closed && !failed {
        let mut frame = Vec::new();
        let _ = write_frame(&mut frame, &Request::Bye);
        let _ = out.send(&frame, &mut r);
    }
    out.close();
    // drain until the server closes its side
    let mut sink = [0u8; 4096];
    loop {
        match rd.read(&mut sink) {
            Ok(0) | Err(_) => break,
            Ok(_) => {}
        }
    }
    0
}

pub struct HubRun {
    pub out: Outcome,
    pub logs: Vec<ClientLog>,
    pub init: BTreeMap<String, Vec<u8>>,
    pub world0: World,
}

pub fn build_world(sc: &HubSc) -> (World, BTreeMap<String, Vec<u8>>) {
    let mut w = World::new();
    let t = w.clock_ns;
    w.host(HUB).mkdir_p(ROOT, t);
    w.host(HUB).mkdir_p("/home/hub", t);
    let mut init = BTreeMap::new();
    for (p, k) in &sc.init {
        let b = init_body(*k);
        w.host(HUB).put_file(&format!("{ROOT}/{p}"), &b, t);
        init.insert(p.clone(), b);
    }
    if sc.sentinels {
        w.host(HUB).put_file("/srv/secret", b"TOP SECRET", t);
        w.host(HUB).put_file("/etc/passwd", b"root:x:0:0", t);
        w.host(HUB).put_file("/srv/hub-evil/x", b"sibling with the same prefix", t);
        w.host(HUB).put_file("/srv/neighbour", b"in the parent of ROOT", t);
        w.host(HUB).put_file("/secret", b"at the file-system root", t);
    }
    (w, init)
}

pub fn run_hub(sc: &HubSc, hook: Option<StepHook>) -> HubRun {
    let (w, init) = build_world(sc);
    run_hub_in(sc, w, init, hook)
}

/// Like `run_hub`, but in a given world (e.g. the one an earlier wave of servers left behind):
/// the new processes get the same process ids as the earlier wave, as after a pid wrap-around.
pub fn run_hub_in(sc: &HubSc, w: World, init: BTreeMap<String, Vec<u8>>, hook: Option<StepHook>) -> HubRun {
    let world0 = w.clone();
    let mut cfg = RunCfg::default();
    cfg.seed = sc.seed;
    cfg.policy = sc.policy.to_policy();
    cfg.pipe_cap = sc.pipe_cap.max(1) as usize;
    cfg.short_read_pct = sc.short_read_pct;
    cfg.op_budget = 400_000;
    if let Some((srv, nth, class)) = sc.kill {
        cfg.faults.push(Fault::KillAtOp {
            target: ProcSel::Role(format!("serve{srv}")),
            nth,
            class: if class == 1 { OpClass::Mutating } else { OpClass::FsCall },
        });
    }
    if let Some((srv, nth, k)) = sc.io_fault {
        if k as usize == HUB_FAULT_KINDS.len() {
            // index one past the error kinds: a short write (legal write(2) behaviour, not an error)
            cfg.faults.push(Fault::ShortWrite { target: ProcSel::Role(format!("serve{srv}")), nth });
        } else {
            let errno = [copia_simworld::fs::EIO, copia_simworld::fs::ENOSPC, copia_simworld::fs::EACCES][nth as usize % 3];
            cfg.faults.push(Fault::FailOp { target: ProcSel::Role(format!("serve{srv}")), nth, kind: HUB_FAULT_KINDS[k as usize % HUB_FAULT_KINDS.len()], errno });
        }
    }
    let sim = Sim::new(w, cfg, resolver());
    if let Some(h) = hook {
        sim.on_step(h);
    }
    let mut logs: Vec<Arc<Mutex<ClientLog>>> = Vec::new();
    for (i, cp) in sc.clients.iter().enumerate() {
        let c2s = sim.pipe(None);
        // a raw byte injector does not read while it writes: give the reply direction room
        // so that the injector (not a hub property) cannot wedge the pair
        let raw = cp.pipeline || cp.reqs.iter().any(|q| matches!(q, Req::Raw { .. }));
        let s2c = sim.pipe(if raw { Some(1 << 30) } else { None });
        sim.spawn(TopSpawn {
            role: format!("serve{i}"),
            host: HUB.into(),
            argv: sv(&["copia", "serve", ROOT]),
            env: env_of(&[("HOME", "/home/hub")]),
            cwd: "/".into(),
            stdin: Fd::Pipe { id: c2s, write: false },
            stdout: Some(Fd::Pipe { id: s2c, write: true }),
            stderr: None,
            program: None,
        });
        let log = Arc::new(Mutex::new(ClientLog::default()));
        logs.push(log.clone());
        let prog = cp.clone();
        let init2 = init.clone();
        sim.spawn(TopSpawn {
            role: format!("client{i}"),
            host: HUB.into(),
            argv: vec![format!("client{i}")],
            env: BTreeMap::new(),
            cwd: "/".into(),
            stdin: Fd::Pipe { id: s2c, write: false },
            stdout: Some(Fd::Pipe { id: c2s, write: true }),
            stderr: None,
            program: Some(Box::new(move || client_main(i, prog, init2, log))),
        });
    }
    let out = sim.run();
    let logs = logs
        .into_iter()
        .map(|l| std::mem::take(&mut *l.lock().unwrap()))
        .collect();
    HubRun { out, logs, init, world0 }
}

/// The file a client path names: `.` and empty components do not count (`./f`, `d//f` and
/// `d/./f` are spellings of `f` and `d/f`).
pub fn norm_path(p: &str) -> String {
    // (a path the hub refuses — absolute, or with a `..` component — names no hub file at all:
    // it must not be folded onto the relative path that happens to have the same components)
    if p.starts_with('/') || p.split('/').any(|c| c == "..") {
        return p.to_string();
    }
    p.split('/').filter(|c| !c.is_empty() && *c != ".").collect::<Vec<_>>().join("/")
}

/// The hub's own directory `.copia/` (lock files): not a client-visible path. Only that
/// component — a client file named `.copiaignore` is an ordinary file.
pub fn is_hub_private(rel: &str) -> bool {
    rel == ".copia" || rel.starts_with(".copia/")
}

/// Hub tree as clients can see it: no `.copia/`, no staging names.
pub fn visible_tree(w: &World) -> Tree {
    tree_bytes(w, HUB, ROOT)
        .into_iter()
        .filter(|(k, _)| !is_hub_private(k) && !is_staging(k))
        .collect()
}

// ------------------------------------------------------------------------------------
// sequential model + Wing–Gong–Lowe search
// ------------------------------------------------------------------------------------

pub type Model = BTreeMap<String, Vec<u8>>;

fn model_hash(m: &Model) -> u64 {
    let mut h = 0xcbf2_9ce4_8422_2325u64;
    for (k, v) in m {
        for b in k.bytes() {
            h = (h ^ u64::from(b)).wrapping_mul(0x100_0000_01B3);
        }
        h = (h ^ 0xFF).wrapping_mul(0x100_0000_01B3);
        for b in blake3::hash(v).as_bytes().iter().take(8) {
            h = (h ^ u64::from(*b)).wrapping_mul(0x100_0000_01B3);
        }
    }
    h
}

#[derive(Clone, Copy, PartialEq, Eq, Debug)]
pub enum Relax {
    Nothing,
    ListReplies,
    GetReplies,
}

/// Apply `op` to the model; returns whether the recorded reply is the model's reply.
fn apply_model(m: &mut Model, op: &HOp, relax: Relax) -> bool {
    let Some((_, rep)) = &op.resp else { return false };
    match &op.kind {
        OpKindH::Hello => matches!(rep, Reply::Hello),
        OpKindH::Raw => true,
        OpKindH::List => {
            if relax == Relax::ListReplies {
                return matches!(rep, Reply::Fingerprints(_));
            }
            let want: BTreeMap<String, Hash> = m.iter().filter(|(k, _)| !k.ends_with('/')).map(|(k, v)| (k.clone(), b3(v))).collect();
            match rep {
                Reply::Fingerprints(got) => {
                    let got: BTreeMap<String, Hash> = got
                        .iter()
                        .filter(|(k, _)| !is_staging(k) && !is_hub_private(k))
                        .map(|(k, v)| (k.clone(), *v))
                        .collect();
                    got == want
                }
                _ => false,
            }
        }
        OpKindH::Get { path } => {
            let path = &norm_path(path);
            if is_hub_private(path) {
                return matches!(rep, Reply::Error(_));
            }
            if relax == Relax::GetReplies {
                return matches!(rep, Reply::Content { .. } | Reply::Error(_));
            }
            match (m.get(path), rep) {
                (Some(b), Reply::Content { len, hash, body }) => *len == b.len() as u64 && *hash == b3(b) && body == b,
                (None, Reply::Error(_)) => true,
                _ => false,
            }
        }
        OpKindH::Put { path, expected, body, declared, .. } => {
            let path = &norm_path(path);
            if *declared != Declared::Valid || is_hub_private(path) {
                // an invalid put changes nothing and is answered with an error (or nothing);
                // the hub's own directory is not a client path
                return matches!(rep, Reply::Error(_));
            }
            // a path below a regular file cannot hold anything: refused, nothing changes
            if below_a_file(m, path) {
                return matches!(rep, Reply::Error(_));
            }
            let cur = m.get(path).map(|b| b3(b));
            if cur == *expected {
                // a path occupied by a directory cannot be committed to: refused
                if m.contains_key(&format!("{path}/")) {
                    return matches!(rep, Reply::Error(_));
                }
                add_parent_dirs(m, path);
                m.insert(path.clone(), body.clone());
                *rep == Reply::PutResult { committed: true, current: Some(b3(body)) }
            } else {
                add_parent_dirs(m, path);
                m.insert(free_conflict_name(m, path, body), body.clone());
                *rep == Reply::PutResult { committed: false, current: cur }
            }
        }
        OpKindH::Delete { path, expected } => {
            let path = &norm_path(path);
            if is_hub_private(path) {
                return matches!(rep, Reply::Error(_));
            }
            let cur = m.get(path).map(|b| b3(b));
            if cur == *expected {
                m.remove(path);
                *rep == Reply::DeleteResult { deleted: true, current: None }
            } else {
                *rep == Reply::DeleteResult { deleted: false, current: cur }
            }
        }
    }
}

/// Where the conflict-copy of `body` next to `path` goes: `<path>.conflict-<h12>`, unless that
/// name holds OTHER content (a client committed something there — "no acknowledged content ever
/// vanishes"): then one conflict-suffix further, and so on.
fn free_conflict_name(m: &Model, path: &str, body: &[u8]) -> String {
    let suffix = format!(".conflict-{}", short_hex(&b3(body)));
    let mut name = format!("{path}{suffix}");
    while m.get(&name).map_or(false, |b| b != body) {
        name.push_str(&suffix);
    }
    name
}

/// Effect of a request whose reply never arrived (its server died): what the sequential hub
/// would have done with it in state `m`.
fn apply_effect(m: &mut Model, op: &HOp) -> bool {
    match &op.kind {
        OpKindH::Put { path, expected, body, declared, .. } => {
            let path = &norm_path(path);
            if *declared != Declared::Valid || below_a_file(m, path) || is_hub_private(path) {
                return true;
            }
            let cur = m.get(path).map(|b| b3(b));
            if cur == *expected {
                if m.contains_key(&format!("{path}/")) {
                    return true;
                }
                add_parent_dirs(m, path);
                m.insert(path.clone(), body.clone());
            } else {
                add_parent_dirs(m, path);
                m.insert(free_conflict_name(m, path, body), body.clone());
            }
            true
        }
        OpKindH::Delete { path, expected } => {
            let path = &norm_path(path);
            if is_hub_private(path) {
                return true;
            }
            if m.get(path).map(|b| b3(b)) == *expected {
                m.remove(path);
            }
            true
        }
        _ => true,
    }
}

/// Directories are kept in the model as marker keys ending in '/' (a directory outlives
/// the files in it). `with_dirs` adds the markers implied by a set of files.
pub fn add_parent_dirs(m: &mut Model, path: &str) {
    let mut cur = String::new();
    let comps: Vec<&str> = path.split('/').collect();
    for c in &comps[..comps.len().saturating_sub(1)] {
        cur.push_str(c);
        cur.push('/');
        m.entry(cur.clone()).or_default();
    }
}

pub fn with_dirs(files: &Model) -> Model {
    let mut m = files.clone();
    for p in files.keys() {
        add_parent_dirs(&mut m, p);
    }
    m
}

fn below_a_file(m: &Model, path: &str) -> bool {
    let comps: Vec<&str> = path.split('/').collect();
    let mut cur = String::new();
    for c in &comps[..comps.len().saturating_sub(1)] {
        if !cur.is_empty() {
            cur.push('/');
        }
        cur.push_str(c);
        if m.contains_key(&cur) {
            return true;
        }
    }
    false
}

fn files_only(m: &Model) -> Model {
    m.iter().filter(|(k, _)| !k.ends_with('/')).map(|(k, v)| (k.clone(), v.clone())).collect()
}

pub struct Wgl<'a> {
    ops: Vec<&'a HOp>,
    final_tree: &'a Tree,
    relax: Relax,
    /// requests of this client were served by a server that was killed or hit an injected I/O
    /// error: a request without reply may or may not have taken effect (at any point after it was
    /// sent), and a valid write/delete may have been answered with an Error and no effect
    pub faulted_client: Option<usize>,
    seen: HashSet<(u64, u64)>,
    pub nodes: u64,
    pub cap: u64,
}

impl<'a> Wgl<'a> {
    pub fn new(ops: Vec<&'a HOp>, final_tree: &'a Tree, relax: Relax) -> Self {
        Self { ops, final_tree, relax, faulted_client: None, seen: HashSet::new(), nodes: 0, cap: 2_000_000 }
    }

    /// Some(true) linearizable, Some(false) not, None = search cap hit
    pub fn search(&mut self, init: &Model) -> Option<bool> {
        let n = self.ops.len();
        assert!(n <= 63);
        let r = self.dfs(0, with_dirs(init));
        if self.nodes >= self.cap {
            return None;
        }
        Some(r)
    }

    fn dfs(&mut self, mask: u64, m: Model) -> bool {
        self.nodes += 1;
        if self.nodes >= self.cap {
            return false;
        }
        let n = self.ops.len();
        // unanswered requests are optional: the search may stop once every answered one is placed
        let answered_done = (0..n).all(|i| mask & (1 << i) != 0 || self.ops[i].resp.is_none());
        if answered_done && &files_only(&m) == self.final_tree {
            return true;
        }
        if mask == (1u64 << n) - 1 {
            return false;
        }
        if !self.seen.insert((mask, model_hash(&m))) {
            return false;
        }
        // minimal ops: invoked before every unlinearized op's response
        let mut min_resp = u64::MAX;
        for i in 0..n {
            if mask & (1 << i) == 0 {
                if let Some((r, _)) = &self.ops[i].resp {
                    min_resp = min_resp.min(*r);
                }
            }
        }
        for i in 0..n {
            if mask & (1 << i) != 0 || self.ops[i].inv > min_resp {
                continue;
            }
            let mut m2 = m.clone();
            let op = self.ops[i];
            let faulted = self.faulted_client == Some(op.client);
            let ok = if op.resp.is_none() {
                // no reply: only its effect (if any) is placed
                faulted && apply_effect(&mut m2, op)
            } else if faulted && matches!(&op.resp, Some((_, Reply::Error(_)))) && matches!(op.kind, OpKindH::Put { .. } | OpKindH::Delete { .. } | OpKindH::Get { .. } | OpKindH::List) {
                // the server reported a failure: nothing may have changed
                true
            } else if faulted && matches!(&op.resp, Some((_, Reply::Content { len, body, .. })) if (body.len() as u64) < *len) {
                // the stream ended inside the announced content (the server stopped on the error):
                // the client sees a broken transfer, not a reply
                true
            } else if faulted && matches!((&op.kind, &op.resp), (OpKindH::List, Some((_, Reply::Fingerprints(_))))) {
                // a listing taken while a file could not be read may omit it ("skipped, never
                // guessed"); what it does list must be the model's
                match &op.resp {
                    Some((_, Reply::Fingerprints(got))) => got.iter().filter(|(k, _)| !is_staging(k) && !is_hub_private(k)).all(|(k, v)| m2.get(k).map(|b| b3(b)) == Some(*v)),
                    _ => false,
                }
            } else {
                apply_model(&mut m2, op, self.relax)
            };
            if ok && self.dfs(mask | (1 << i), m2) {
                return true;
            }
        }
        false
    }
}

pub fn all_ops(logs: &[ClientLog]) -> Vec<&HOp> {
    let mut v: Vec<&HOp> = logs.iter().flat_map(|l| l.ops.iter()).collect();
    v.sort_by_key(|o| (o.inv, o.client));
    v
}

/// A path for a report: long ones are cut (hostile paths may be a megabyte).
fn show_path(p: &str) -> String {
    if p.len() <= 160 {
        return format!("{p:?}");
    }
    let head: String = p.chars().take(60).collect();
    format!("{head:?}…({} bytes)", p.len())
}

pub fn describe(op: &HOp) -> String {
    let k = match &op.kind {
        OpKindH::Put { path, expected, body, declared, .. } => format!(
            "Put {} expected={} body={}({}B) {declared:?}",
            show_path(path),
            expected.map(|h| short_hex(&h)).unwrap_or_else(|| "None".into()),
            short_hex(&b3(body)),
            body.len()
        ),
        OpKindH::Delete { path, expected } => format!(
            "Delete {} expected={}",
            show_path(path),
            expected.map(|h| short_hex(&h)).unwrap_or_else(|| "None".into())
        ),
        OpKindH::Get { path } => format!("Get {}", show_path(path)),
        OpKindH::List => "List".into(),
        OpKindH::Hello => "Hello".into(),
        OpKindH::Raw => "Raw".into(),
    };
    let r = match &op.resp {
        None => format!("(no reply: {})", op.note),
        Some((s, Reply::PutResult { committed, current })) => format!(
            "@{s} PutResult committed={committed} current={}",
            current.map(|h| short_hex(&h)).unwrap_or_else(|| "None".into())
        ),
        Some((s, Reply::DeleteResult { deleted, current })) => format!(
            "@{s} DeleteResult deleted={deleted} current={}",
            current.map(|h| short_hex(&h)).unwrap_or_else(|| "None".into())
        ),
        Some((s, Reply::Content { len, hash, body })) => format!("@{s} Content len={len} hash={} got={}B", short_hex(hash), body.len()),
        Some((s, Reply::Fingerprints(m))) => format!(
            "@{s} Fingerprints {{{}}}",
            m.iter().map(|(k, v)| format!("{k}:{}", short_hex(v))).collect::<Vec<_>>().join(", ")
        ),
        Some((s, Reply::Error(e))) => format!("@{s} Error({e})"),
        Some((s, Reply::Hello)) => format!("@{s} Hello"),
    };
    format!("c{}#{} inv@{} {k} -> {r}", op.client, op.idx, op.inv)
}

pub const HUB_PATHS: &[&str] = &["k1", "dir/k2", "k 3'$", "deep/er/k4", "k5"];

pub fn distinct<T: Ord + Clone>(xs: &[T]) -> BTreeSet<T> {
    xs.iter().cloned().collect()
}
