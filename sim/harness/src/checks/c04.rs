//! C04 — recursive one-way sync delivers exactly its plan.
//! C14 — an unchanged tree is never re-sent.
//! C15 — excludes protect, deletes are opt-in, dry runs touch nothing (sync and bisync).

use super::sync_common::*;
use crate::common::*;
use crate::framework::*;
use crate::gen::fnv;
use copia_simworld::kernel::*;
use copia_simworld::rng::Rng;
use serde::{Deserialize, Serialize};
use serde_json::{json, Value};
use std::collections::BTreeSet;

pub struct C04;

fn plan_counts(stderr: &str) -> Option<(u64, u64, u64)> {
    for l in stderr.lines() {
        if let Some(rest) = l.strip_prefix("Plan: ") {
            let nums: Vec<u64> = rest.split(|c: char| !c.is_ascii_digit()).filter(|s| !s.is_empty()).filter_map(|s| s.parse().ok()).collect();
            if nums.len() >= 3 {
                return Some((nums[0], nums[1], nums[2]));
            }
        }
    }
    None
}

pub struct Checked {
    pub plan: RefPlan,
    pub src0: Snap,
    pub dst0: Snap,
    pub dst1: Snap,
    pub exit0: bool,
}

/// Run the scenario's command once and apply C04's post-conditions.
pub fn check_c04(sc: &SyncSc, world: World, rep: &mut RunReport, salt: u64) -> Option<(Checked, Outcome)> {
    let (sh, dh) = (src_host(sc), dst_host(sc));
    let src0 = snap(&world, sh, SRC_ROOT);
    let dst0 = snap(&world, dh, DST_ROOT);
    let plan = ref_plan(&src0, &dst0, &sc.excludes, sc.delete);
    let out = run_sync(world, sc, run_cfg(sc, salt), false);
    rep.execs += 1;
    rep.steps += out.stats.steps;
    rep.fault("context_switches", out.stats.switches);
    let me = &out.procs[0];
    if let ExitKind::Aborted(m) = &me.exit {
        rep.fail("c04.no_crash", "sync-panicked", m.clone());
        return None;
    }
    if out.deadlock || out.budget_exceeded {
        if std::env::var("SIMCHECK_DEBUG").is_ok() {
            for r in out.trace.iter().rev().take(60).rev() {
                eprintln!("{} p{} {:?} {} {} ok={} n={}", r.seq, r.pid, r.kind, r.path.replace('\n', "\\n"), r.path2.replace('\n', "\\n"), r.ok, r.bytes);
            }
            for p in &out.procs {
                eprintln!("{} {:?} exit={:?} stderr={}", p.role, p.argv, p.exit, p.err_str());
            }
        }
        rep.fail("c04.progress", "sync-deadlock-or-spin", format!("deadlock={} budget={}", out.deadlock, out.budget_exceeded));
        return None;
    }
    let exit0 = me.exit == ExitKind::Code(0);
    // fault batch: an injected I/O error is outside C04's quantifier, so only the safety
    // clauses are asserted for such a run (source untouched, outside-plan untouched, no
    // partial file at a live name); its exit-0 post-conditions are counted, not raised
    let faulted = out.stats.injected_errors > 0 || out.stats.kills > 0;
    if out.stats.injected_errors > 0 {
        rep.fault("injected_io_error", out.stats.injected_errors);
    }
    if out.stats.kills > 0 {
        rep.fault("ssh_child_killed", out.stats.kills);
    }
    let src1 = snap(&out.world, sh, SRC_ROOT);
    let dst1 = snap(&out.world, dh, DST_ROOT);
    let dir_name = ["local", "push", "pull"][sc.dir as usize];
    // source never modified
    if src1 != src0 {
        rep.fail("c04.source_untouched", "source-tree-modified", format!("{dir_name}"));
        return None;
    }
    let smut = mutating_ops_under(&out.trace, sh, SRC_ROOT);
    if !smut.is_empty() {
        rep.fail("c04.source_untouched", "mutating-call-on-source", format!("{dir_name}: {:?}", &smut[..smut.len().min(3)]));
        return None;
    }
    // fault batch: an injected I/O error is outside C04's quantifier (e.g. a failed remote
    // listing is treated as an empty destination and everything is re-sent). Narrow
    // relaxation: a non-excluded source path may additionally be re-delivered — with exactly
    // the source's bytes; everything else is judged as usual.
    let faulted_early = out.stats.injected_errors > 0 || out.stats.kills > 0;
    let in_plan = |p: &str| {
        plan.transfer.contains(p)
            || plan.delete.contains(p)
            || (faulted_early && src0.contains_key(p) && !excluded(p, &sc.excludes) && dst1.get(p).map(|x| &x.0) == src0.get(p).map(|x| &x.0))
    };
    let keys: BTreeSet<&String> = dst0.keys().chain(dst1.keys()).collect();
    for p in keys {
        if is_staging(p) {
            continue;
        }
        // a DirInTheWay occupant lives under a planned path; it is not part of the plan itself
        if in_plan(p) {
            continue;
        }
        if dst0.get(p) != dst1.get(p) {
            let what = match (dst0.get(p), dst1.get(p)) {
                (None, Some(_)) => "created",
                (Some(_), None) => "removed",
                _ => "modified",
            };
            let class = if excluded(p, &sc.excludes) { "excluded-path-touched" } else if what == "removed" { "file-outside-delete-set-removed" } else { "file-outside-plan-touched" };
            rep.fail("c04.outside_plan_untouched", class, format!("{dir_name}, exit {:?}: destination file {p:?} was {what} although it is not in the plan (transfer {} / delete {})", me.exit, plan.transfer.len(), plan.delete.len()));
            return None;
        }
    }
    // whatever the outcome: a planned path holds its old bytes or the complete source bytes
    for p in &plan.transfer {
        let now = dst1.get(p).map(|x| &x.0);
        if now != dst0.get(p).map(|x| &x.0) && now != src0.get(p).map(|x| &x.0) {
            rep.fail("c04.no_partial_file", "partial-or-foreign-bytes-at-live-path", format!("{dir_name}, exit {:?}{}: {p:?} holds {:?} bytes, neither its previous content nor the source's {} bytes", me.exit, if faulted { " (after an injected I/O error)" } else { "" }, now.map(Vec::len), src0[p].0.len()));
            return None;
        }
    }
    if faulted {
        // a failing unlink of the local/pull delete pass: the run may report the failure — but a
        // run that exits 0 claims its delete set was removed
        let unlink_failed = out.trace.iter().any(|r| r.injected && r.kind == OpKind::Unlink && r.pid == me.pid);
        if exit0 && unlink_failed {
            if let Some(p) = plan.delete.iter().find(|p| dst1.contains_key(*p)) {
                rep.fail("c04.delete_applied", "exit-0-although-a-delete-failed", format!("{dir_name}: removing {p:?} failed (injected errno), the file is still there, and the run exits 0"));
                return None;
            }
        }
        if exit0 {
            rep.probe("exit0_after_injected_error", 1);
        } else {
            rep.probe("exit_nonzero_after_injected_error", 1);
        }
        rep.shape = fnv(&[rep.shape, out.shape]);
        return Some((Checked { plan, src0, dst0, dst1, exit0: false }, out));
    }
    if exit0 {
        for p in &plan.transfer {
            let (sb, sm) = &src0[p];
            match dst1.get(p) {
                Some((db, dm)) if db == sb => {
                    if dm / 1_000_000_000 != sm / 1_000_000_000 {
                        rep.fail("c04.mtime_carried", "mtime-not-carried-to-the-second", format!("{dir_name}: {p:?} source mtime {}s destination {}s", sm / 1_000_000_000, dm / 1_000_000_000));
                        return None;
                    }
                }
                other => {
                    rep.fail("c04.delivered", "planned-file-not-byte-identical", format!("{dir_name}, exit 0: {p:?} source {} bytes, destination {:?}", sb.len(), other.map(|x| x.0.len())));
                    return None;
                }
            }
        }
        for p in &plan.delete {
            if dst1.contains_key(p) {
                rep.fail("c04.delete_applied", "delete-set-not-removed", format!("{dir_name}: {p:?} still present after exit 0"));
                return None;
            }
        }
        let left: Vec<&String> = dst1.keys().filter(|k| is_staging(k)).collect();
        if !left.is_empty() {
            rep.fail("c04.no_staging_left", "staging-file-left-after-success", format!("{dir_name}: {left:?}"));
            return None;
        }
        // quick-check matches: no mutating call at all on them (exact path comparison on the trace)
        for p in &plan.skipped {
            let full = format!("{DST_ROOT}/{p}");
            let staged = format!("{full}.copia-tmp");
            if let Some(r) = out.trace.iter().find(|r| {
                r.host == dh
                    && r.mutating
                    && (r.effect || matches!(r.kind, OpKind::Unlink | OpKind::Rename | OpKind::Write | OpKind::SetMtime))
                    && (r.path == full || r.path2 == full || r.path == staged || r.path2 == staged)
            }) {
                rep.fail("c04.skipped_untouched", "quick-check-match-was-touched", format!("{dir_name}: {:?} {:?} {:?}", r.kind, r.path, r.path2));
                return None;
            }
        }
        // reported plan equals the reference plan
        if let Some((t, s, d)) = plan_counts(&me.err_str()) {
            if (t, s, d) != (plan.transfer.len() as u64, plan.skipped.len() as u64, plan.delete.len() as u64) {
                rep.fail("c14.plan_is_quick_check", "plan-differs-from-quick-check-rule", format!("{dir_name}: copia planned {t}/{s}/{d} (transfer/skip/delete), the stated rule gives {}/{}/{}", plan.transfer.len(), plan.skipped.len(), plan.delete.len()));
                return None;
            }
        }
        rep.probe(&format!("exit0_{dir_name}"), 1);
    } else {
        let e = format!("{}{}", me.err_str(), me.out_str());
        if !(e.contains("Error") || e.contains("FAILED") || e.contains("error")) {
            rep.fail("c04.error_reported", "nonzero-exit-without-report", format!("{dir_name}: exit {:?}", me.exit));
            return None;
        }
        rep.probe(&format!("exit_nonzero_{dir_name}"), 1);
    }
    if !sc.delete {
        let unl: Vec<&OpRec> = out.trace.iter().filter(|r| r.host == dh && matches!(r.kind, OpKind::Unlink | OpKind::Rmdir) && under(&r.path, DST_ROOT) && !is_staging(&r.path)).collect();
        if let Some(u) = unl.first() {
            rep.fail("c15.delete_opt_in", "unlink-without-delete-flag", format!("{dir_name}: {}", u.path));
            return None;
        }
    }
    if !plan.transfer.is_empty() {
        rep.probe("transfers", plan.transfer.len() as u64);
    }
    if !plan.delete.is_empty() {
        rep.probe("deletes", plan.delete.len() as u64);
    }
    if !plan.skipped.is_empty() {
        rep.probe("quick_check_skips", plan.skipped.len() as u64);
    }
    if !sc.excludes.is_empty() && src0.keys().chain(dst0.keys()).any(|p| excluded(p, &sc.excludes)) {
        rep.probe("exclude_matched_a_path", 1);
    }
    rep.shape = fnv(&[rep.shape, out.shape]);
    Some((Checked { plan, src0, dst0, dst1, exit0 }, out))
}

impl Check for C04 {
    type Sc = SyncSc;
    fn id(&self) -> &'static str {
        "C04"
    }
    fn level(&self) -> &'static str {
        "exploration"
    }
    fn rule(&self) -> String {
        "one run = one seeded (source tree, destination tree, flags, direction, schedule): 0..7 files with hostile names (spaces, quotes, backslash, $, glob characters, tab, newline, leading dash, unicode; roots containing a space and a quote), per-file destination state {absent, same size+mtime, same meta but different bytes, different size, different mtime, a directory in the way}, destination-only files, --delete / --exclude* / --jobs {1,2,3,8} / --verbose, local->local, push and pull through the ssh + remote-shell stand-in; the real tokio tasks run on a current-thread runtime whose ready operations are completed in the scheduler's seeded order. Non-trivial = at least one transfer and exit 0; distinct = hash of the interleaved op trace".into()
    }
    fn assumptions(&self) -> Vec<String> {
        vec![
            "remote login shell is bash and the tools are GNU (the shipped commands already assume $'..', find -printf, xargs -d, touch -d @)".into(),
            "ssh is a reliable ordered byte stream; one shim call = one atomic step".into(),
            "regular files only; mtimes >= epoch".into(),
        ]
    }
    fn components(&self) -> Value {
        json!({"real": ["copia sync -r (incremental.rs, plan.rs, meta.rs, transfer.rs, dir_sync.rs)", "tokio runtime, tasks, Semaphore, io::copy"], "simulated": ["file systems of both hosts", "pipes", "process spawn/wait", "ssh + bash + coreutils stub", "completion order of async operations", "clock"]})
    }
    fn runs(&self, tier: Tier) -> u64 {
        match tier {
            Tier::Quick => 8_000,
            Tier::Thorough => 1_200_000,
        }
    }
    fn generate(&self, seed: u64, _tier: Tier) -> SyncSc {
        let mut r = Rng::new(seed);
        let mut sc = gen_sync(&mut r, true);
        if r.below(6) == 0 {
            let kind = r.below(FAULT_KINDS.len() as u64) as u8;
            // (a tree walk lists few directories: keep the call number low for that kind)
            let nth = if FAULT_KINDS[kind as usize] == OpKind::Readdir { r.range(1, 4) } else { r.range(1, 12) } as u32;
            sc.inject = Some((kind, nth));
        } else if sc.dir != 0 && r.below(8) == 0 {
            // an ssh child dies from a signal in the middle of what it is doing
            sc.kill_child = Some(r.range(2, 14) as u32);
        } else if r.below(300) == 0 {
            // mass failure: 255, 256 or 257 files that cannot be delivered (a directory sits at
            // each destination path) next to a few ordinary ones, local to local — counts that
            // reach the width of an exit status
            sc.dir = 0;
            sc.dst_exists = true;
            sc.hardlink_pair = false;
            sc.excludes.clear();
            sc.files.retain(|f| !f.path.starts_with("mass/") && f.path != "mass" && f.size <= 1000);
            sc.extra_dst.retain(|(p, _)| !p.starts_with("mass/") && p != "mass");
            let n = *r.pick(&[255u32, 256, 256, 257]);
            for i in 0..n {
                sc.files.push(FileSpec { path: format!("mass/f{i:03}"), size: 3, tag: i, mtime_s: 1_650_000_000, mtime_ns: 0, dst: DstState::DirInTheWay });
            }
        }
        sc
    }
    fn execute(&self, sc: &SyncSc) -> RunReport {
        let mut rep = RunReport::default();
        let w = build_world(sc);
        if let Some((c, _)) = check_c04(sc, w, &mut rep, 0) {
            rep.nontrivial = c.exit0 && !c.plan.transfer.is_empty();
            let _ = (&c.src0, &c.dst0, &c.dst1);
        }
        rep
    }
    fn shrink(&self, sc: &SyncSc) -> Vec<SyncSc> {
        shrink_sync(sc)
    }
    fn expected_probes(&self) -> Vec<&'static str> {
        vec!["exit0_local", "exit0_push", "exit0_pull", "transfers", "deletes", "quick_check_skips", "exclude_matched_a_path", "exit_nonzero_local"]
    }
}

// ------------------------------------------------------------------------------------
// C14
// ------------------------------------------------------------------------------------

pub struct C14;

impl Check for C14 {
    type Sc = SyncSc;
    fn id(&self) -> &'static str {
        "C14"
    }
    fn level(&self) -> &'static str {
        "exploration"
    }
    fn rule(&self) -> String {
        "scenarios as in C04 without input-induced failures, source mtimes in {0, 1, whole seconds, sub-second parts .000000001/.5/.999999999, 15032385535 (largest ext4 stores)}, sizes incl. 0; the same command is run twice. Run 2 must plan 0 transfers / 0 deletes, issue no mutating call on either host and leave both trees bit-identical incl. nanosecond mtimes; in run 1 the reported plan must equal the stated quick-check rule. Non-trivial = run 1 transferred >= 1 file; distinct = hash of both runs' traces".into()
    }
    fn assumptions(&self) -> Vec<String> {
        C04.assumptions()
    }
    fn components(&self) -> Value {
        C04.components()
    }
    fn runs(&self, tier: Tier) -> u64 {
        match tier {
            Tier::Quick => 6_000,
            Tier::Thorough => 800_000,
        }
    }
    fn generate(&self, seed: u64, _tier: Tier) -> SyncSc {
        let mut r = Rng::new(seed);
        gen_sync(&mut r, false)
    }
    fn execute(&self, sc: &SyncSc) -> RunReport {
        let mut rep = RunReport::default();
        let w = build_world(sc);
        let Some((c, out1)) = check_c04(sc, w, &mut rep, 0) else { return rep };
        if !c.exit0 {
            rep.probe("first_run_failed", 1);
            return rep;
        }
        rep.nontrivial = !c.plan.transfer.is_empty();
        let (sh, dh) = (src_host(sc), dst_host(sc));
        let src_mid = snap(&out1.world, sh, SRC_ROOT);
        let dst_mid = snap(&out1.world, dh, DST_ROOT);
        let out2 = run_sync(out1.world, sc, run_cfg(sc, 0x2222), false);
        rep.execs += 1;
        rep.steps += out2.stats.steps;
        let me = &out2.procs[0];
        let dir_name = ["local", "push", "pull"][sc.dir as usize];
        if me.exit != ExitKind::Code(0) {
            rep.fail("c14.second_run", "second-run-fails", format!("{dir_name}: {:?} {}", me.exit, me.err_str()));
            return rep;
        }
        let err = me.err_str();
        let out_s = me.out_str();
        let planned = plan_counts(&err);
        let quiet = err.contains("No files found") || out_s.contains("Already up to date");
        match planned {
            Some((0, _, 0)) => {}
            Some((t, s, d)) => {
                // which files? compare metadata the way the statement does
                let again: Vec<&String> = src_mid.iter().filter(|(p, (b, m))| !excluded(p, &sc.excludes) && dst_mid.get(*p).map_or(true, |(db, dm)| db.len() != b.len() || dm / 1_000_000_000 != m / 1_000_000_000)).map(|(p, _)| p).collect();
                rep.fail("c14.second_run", "unchanged-tree-re-sent", format!("{dir_name}: second run planned {t} transfers, {s} skips, {d} deletes; files whose size/second-mtime still differ after run 1: {:?}", &again[..again.len().min(3)]));
                return rep;
            }
            None if quiet => {}
            None => {
                rep.fail("c14.second_run", "second-run-no-plan-line", format!("{dir_name}: {err}"));
                return rep;
            }
        }
        for (host, root) in [(sh, SRC_ROOT), (dh, DST_ROOT)] {
            let m = mutating_ops_under(&out2.trace, host, root);
            if !m.is_empty() {
                rep.fail("c14.second_run", "second-run-mutates", format!("{dir_name}: {:?}", &m[..m.len().min(3)]));
                return rep;
            }
        }
        if snap(&out2.world, sh, SRC_ROOT) != src_mid || snap(&out2.world, dh, DST_ROOT) != dst_mid {
            rep.fail("c14.second_run", "second-run-changes-trees", dir_name.to_string());
            return rep;
        }
        rep.probe(&format!("second_run_noop_{dir_name}"), 1);
        if sc.files.iter().any(|f| f.mtime_ns != 0) {
            rep.probe("subsecond_mtime_case", 1);
        }
        if sc.files.iter().any(|f| f.mtime_s > 10_000_000_000) {
            rep.probe("far_future_mtime_case", 1);
        }
        rep.shape = fnv(&[rep.shape, out2.shape]);
        rep
    }
    fn shrink(&self, sc: &SyncSc) -> Vec<SyncSc> {
        shrink_sync(sc)
    }
    fn expected_probes(&self) -> Vec<&'static str> {
        vec!["second_run_noop_local", "second_run_noop_push", "second_run_noop_pull", "subsecond_mtime_case", "far_future_mtime_case"]
    }
}

// ------------------------------------------------------------------------------------
// C15
// ------------------------------------------------------------------------------------

pub struct C15;

#[derive(Clone, Debug, Serialize, Deserialize)]
pub struct Sc15 {
    pub sync: Option<SyncSc>,
    pub bisync: Option<super::c02::Sc>,
}

const GLOB_ALPHA: &[&str] = &["a", "b", "*", "?", ".", "ab", "a*", "?b", "*.", "b.a", "é", "猫b"];

fn glob_name(r: &mut Rng) -> String {
    let n = r.urange(1, 3);
    (0..n).map(|_| *r.pick(GLOB_ALPHA)).collect::<Vec<_>>().join("")
}

impl Check for C15 {
    type Sc = Sc15;
    fn id(&self) -> &'static str {
        "C15"
    }
    fn level(&self) -> &'static str {
        "exploration"
    }
    fn rule(&self) -> String {
        "sync half: trees whose file names and exclude patterns are drawn over the alphabet {a, b, *, ?, ., /} (so names themselves contain * and ?), with/without --delete, destination-only files that do / do not match; the real `sync -r` is run for real and with --dry-run from the same world snapshot: excluded paths must be neither written nor removed (independent reference matcher), no unlink without --delete, the dry run must issue zero mutating calls on every host and print exactly the send/delete lines of the reference plan, which the real run's effects must equal. bisync half: states from the C02 history generator; `bisync --dry-run` must issue zero mutating calls (trees, archive) and its printed `<Action> <path>` lines must equal the effects of a real run from the same snapshot. Non-trivial = an exclude pattern matched some path, or the dry run printed >= 1 action; distinct = hash of names, patterns and trace shape".into()
    }
    fn assumptions(&self) -> Vec<String> {
        C04.assumptions()
    }
    fn components(&self) -> Value {
        json!({"real": ["copia sync -r [--dry-run]", "copia bisync [--dry-run]"], "simulated": ["file systems", "ssh/shell stub", "task scheduling"]})
    }
    fn runs(&self, tier: Tier) -> u64 {
        match tier {
            Tier::Quick => 6_000,
            Tier::Thorough => 800_000,
        }
    }
    fn generate(&self, seed: u64, _tier: Tier) -> Sc15 {
        let mut r = Rng::new(seed);
        if r.below(4) == 0 {
            let hist = super::bisync_common::gen_history(&mut r, 9, false);
            return Sc15 { sync: None, bisync: Some(super::c02::Sc { hist, cfg_seed: r.next_u64(), with_faults: false }) };
        }
        let mut sc = gen_sync(&mut r, false);
        // names and patterns over the glob alphabet
        let mut names: BTreeSet<String> = BTreeSet::new();
        for _ in 0..r.urange(2, 7) {
            let depth = r.urange(1, 2);
            let p = (0..depth).map(|_| glob_name(&mut r)).collect::<Vec<_>>().join("/");
            if p.split('/').any(|c| c == "." || c == ".." || c.is_empty()) {
                continue;
            }
            if names.iter().any(|q| q.starts_with(&format!("{p}/")) || p.starts_with(&format!("{q}/"))) {
                continue;
            }
            names.insert(p);
        }
        // several files per directory (so that a pattern can match one file and not its
        // siblings), and whole-path patterns derived from existing paths
        let mut names: Vec<String> = names.into_iter().collect();
        let dirs: Vec<String> = names.iter().filter(|p| p.contains('/')).map(|p| p.split('/').next().unwrap_or("").to_string()).collect();
        for d in dirs.iter().take(2) {
            for _ in 0..r.urange(1, 2) {
                let leaf = glob_name(&mut r);
                if leaf == "." || leaf == ".." {
                    continue;
                }
                let cand = format!("{d}/{leaf}");
                if !names.contains(&cand) && !names.iter().any(|q| q.starts_with(&format!("{cand}/")) || cand.starts_with(&format!("{q}/"))) {
                    names.push(cand);
                }
            }
        }
        names.sort();
        r.shuffle(&mut names);
        let k = names.len();
        sc.files = names
            .iter()
            .take(k.saturating_sub(1).max(1))
            .enumerate()
            .map(|(i, p)| FileSpec {
                path: p.clone(),
                size: 5 + i as u32,
                tag: i as u32,
                mtime_s: 1_650_000_000 + i as u64,
                mtime_ns: 0,
                dst: r.pick(&[DstState::Absent, DstState::Absent, DstState::DiffSize, DstState::SameSizeMtime]).clone(),
            })
            .collect();
        sc.extra_dst = names.iter().skip(sc.files.len()).map(|p| (p.clone(), 4)).collect();
        if r.coin() {
            sc.extra_dst.push((glob_name(&mut r) + "x", 3));
        }
        // sometimes the destination still holds a DIRECTORY (with a file in it) where the source
        // now has a file: the run must fail that file, never clear the directory away
        // ("without --delete a recursive sync removes nothing"; nor is it in the printed plan)
        if r.below(6) == 0 && !sc.files.is_empty() {
            let i = r.usize_below(sc.files.len());
            sc.files[i].dst = DstState::DirInTheWay;
        }
        sc.excludes = (0..r.urange(1, 3))
            .map(|_| {
                // (an empty or slash-only pattern is ignored: it excludes nothing and ends nothing)
                if r.below(8) == 0 {
                    return (*r.pick(&["", "/"])).to_string();
                }
                let mut p = glob_name(&mut r);
                if r.below(4) == 0 {
                    p = format!("{p}/{}", glob_name(&mut r));
                }
                if r.below(6) == 0 {
                    p.push('/');
                }
                p
            })
            .collect();
        // half of the time add a pattern built from an existing path: the path itself with one
        // character replaced by `?`, or its file name replaced by `*<last char>`
        if r.coin() {
            let all: Vec<String> = sc.files.iter().map(|f| f.path.clone()).chain(sc.extra_dst.iter().map(|x| x.0.clone())).collect();
            if !all.is_empty() {
                let p = r.pick(&all).clone();
                let cs: Vec<char> = p.chars().collect();
                let pat: String = if let Some(i) = p.rfind('/') {
                    let (dir, file) = p.split_at(i + 1);
                    let last = file.chars().last().unwrap_or('a');
                    if r.coin() { format!("{dir}*{last}") } else { format!("{dir}{}", file.chars().enumerate().map(|(j, c)| if j == 0 { '?' } else { c }).collect::<String>()) }
                } else {
                    let j = r.usize_below(cs.len().max(1));
                    cs.iter().enumerate().map(|(i, c)| if i == j { '?' } else { *c }).collect()
                };
                sc.excludes.push(pat);
            }
        }
        sc.dst_exists = true;
        // (the file list was replaced: the pair shape of gen_sync no longer refers to anything)
        sc.hardlink_pair = false;
        Sc15 { sync: Some(sc), bisync: None }
    }
    fn execute(&self, sc15: &Sc15) -> RunReport {
        let mut rep = RunReport::default();
        if let Some(b) = &sc15.bisync {
            c15_bisync(b, &mut rep);
            return rep;
        }
        let Some(sc) = &sc15.sync else { return rep };
        let w = build_world(sc);
        let (sh, dh) = (src_host(sc), dst_host(sc));
        let dir_name = ["local", "push", "pull"][sc.dir as usize];
        // dry run from the same snapshot
        let dry = run_sync(w.clone(), sc, run_cfg(sc, 0xD0), true);
        rep.execs += 1;
        rep.steps += dry.stats.steps;
        let src0 = snap(&w, sh, SRC_ROOT);
        let dst0 = snap(&w, dh, DST_ROOT);
        let plan = ref_plan(&src0, &dst0, &sc.excludes, sc.delete);
        if dry.procs[0].exit != ExitKind::Code(0) {
            rep.fail("c15.dry_run", "dry-run-fails", format!("{dir_name}: {:?} {}", dry.procs[0].exit, dry.procs[0].err_str()));
            return rep;
        }
        for host in [LOCAL, REMOTE] {
            let m: Vec<String> = dry.trace.iter().filter(|r| r.host == host && r.mutating && (r.effect || matches!(r.kind, OpKind::Write | OpKind::Rename | OpKind::Unlink | OpKind::SetMtime))).map(|r| format!("{:?} {}", r.kind, r.path)).collect();
            if !m.is_empty() {
                rep.fail("c15.dry_run", "dry-run-mutates", format!("{dir_name} host {host}: {:?}", &m[..m.len().min(3)]));
                return rep;
            }
        }
        if snap(&dry.world, sh, SRC_ROOT) != src0 || snap(&dry.world, dh, DST_ROOT) != dst0 {
            rep.fail("c15.dry_run", "dry-run-changes-trees", dir_name.to_string());
            return rep;
        }
        let mut expect = String::new();
        if !(src0.is_empty() && !sc.delete) {
            for p in &plan.transfer {
                expect.push_str(&format!("send   {p}\n"));
            }
            for p in &plan.delete {
                expect.push_str(&format!("delete {p}\n"));
            }
            expect.push_str("(dry run) nothing was modified\n");
        }
        let got = dry.procs[0].out_str();
        // the statement fixes WHICH actions are printed, not their order: compare as multisets
        // of records ("send   <path>\n" / "delete <path>\n"; paths may contain newlines, so
        // records are matched from the reference side)
        let mut rest = got.clone();
        let mut same = true;
        let mut recs: Vec<String> = plan.transfer.iter().map(|p| format!("send   {p}\n")).chain(plan.delete.iter().map(|p| format!("delete {p}\n"))).collect();
        recs.sort_by_key(|r| std::cmp::Reverse(r.len()));
        if !(src0.is_empty() && !sc.delete) {
            recs.push("(dry run) nothing was modified\n".to_string());
        }
        for r in &recs {
            match rest.find(r.as_str()) {
                Some(i) => rest.replace_range(i..i + r.len(), ""),
                None => same = false,
            }
        }
        if !rest.is_empty() {
            same = false;
        }
        if !same {
            let class = if plan.transfer.iter().chain(plan.delete.iter()).any(|p| !got.contains(p.as_str())) { "dry-run-omits-planned-action" } else { "dry-run-lists-unplanned-action" };
            rep.fail("c15.dry_run_is_the_plan", class, format!("{dir_name}: excludes {:?}; printed:\n{got}\n    the stated semantics give:\n{expect}", sc.excludes));
            return rep;
        }
        if !plan.transfer.is_empty() || !plan.delete.is_empty() {
            rep.probe("dry_run_listed_actions", 1);
        }
        // the real run from the same snapshot performs exactly that plan (C04's oracle)
        if let Some((c, _)) = check_c04(sc, w, &mut rep, 0xEA) {
            rep.nontrivial = rep.probes.contains_key("exclude_matched_a_path") || rep.probes.contains_key("dry_run_listed_actions");
            let _ = c;
        }
        rep.shape = fnv(&[rep.shape, crate::gen::fnv_bytes(format!("{:?}{:?}", sc.excludes, sc.files.iter().map(|f| &f.path).collect::<Vec<_>>()).as_bytes())]);
        rep
    }
    fn shrink(&self, sc: &Sc15) -> Vec<Sc15> {
        if let Some(s) = &sc.sync {
            return shrink_sync(s).into_iter().map(|x| Sc15 { sync: Some(x), bisync: None }).collect();
        }
        if let Some(b) = &sc.bisync {
            return super::bisync_common::shrink_history(&b.hist).into_iter().map(|h| Sc15 { sync: None, bisync: Some(super::c02::Sc { hist: h, ..b.clone() }) }).collect();
        }
        Vec::new()
    }
    fn expected_probes(&self) -> Vec<&'static str> {
        vec!["exclude_matched_a_path", "dry_run_listed_actions", "bisync_dry_run_compared"]
    }
}

fn c15_bisync(b: &super::c02::Sc, rep: &mut RunReport) {
    use super::bisync_common::*;
    let h = &b.hist;
    // reach a state: run the history, remember the world before its LAST bisync
    let mut before_last: Option<World> = None;
    let mut w = new_world();
    let mut idx_last = None;
    for (i, st) in h.steps.iter().enumerate() {
        if matches!(st, Step::Bisync | Step::BisyncFault { .. }) {
            idx_last = Some(i);
        }
    }
    for (i, st) in h.steps.iter().enumerate() {
        match st {
            Step::Write { .. } | Step::Delete { .. } => {
                apply_user_step(&mut w, st, h, 0);
            }
            _ => {
                if Some(i) == idx_last {
                    before_last = Some(w.clone());
                    break;
                }
                let out = run_bisync(w, super::c02::run_cfg(b.cfg_seed ^ i as u64), ROOT_A, ROOT_B, &[], h.hostname_env);
                rep.execs += 1;
                w = out.world;
            }
        }
    }
    let Some(w0) = before_last else { return };
    let a0 = strip_staging(&tree_bytes(&w0, HOST, ROOT_A));
    let b0 = strip_staging(&tree_bytes(&w0, HOST, ROOT_B));
    let home0 = tree_bytes(&w0, HOST, HOME);
    let dry = run_bisync(w0.clone(), super::c02::run_cfg(b.cfg_seed ^ 0xD), ROOT_A, ROOT_B, &["--dry-run"], h.hostname_env);
    rep.execs += 1;
    if dry.procs[0].exit != ExitKind::Code(0) {
        rep.fail("c15.bisync_dry_run", "bisync-dry-run-fails", format!("{:?} {}", dry.procs[0].exit, dry.procs[0].err_str()));
        return;
    }
    let muts: Vec<String> = dry.trace.iter().filter(|r| r.pid == 0 && r.mutating && (r.effect || matches!(r.kind, OpKind::Write | OpKind::Rename | OpKind::Unlink))).map(|r| format!("{:?} {}", r.kind, r.path)).collect();
    if !muts.is_empty() {
        rep.fail("c15.bisync_dry_run", "bisync-dry-run-mutates", format!("{:?}", &muts[..muts.len().min(3)]));
        return;
    }
    if strip_staging(&tree_bytes(&dry.world, HOST, ROOT_A)) != a0 || strip_staging(&tree_bytes(&dry.world, HOST, ROOT_B)) != b0 || tree_bytes(&dry.world, HOST, HOME) != home0 {
        rep.fail("c15.bisync_dry_run", "bisync-dry-run-changes-state", String::new());
        return;
    }
    // real run from the same snapshot; compare printed actions with observed effects
    let real = run_bisync(w0, super::c02::run_cfg(b.cfg_seed ^ 0xE), ROOT_A, ROOT_B, &[], h.hostname_env);
    rep.execs += 1;
    if classify(&real) != RunKind::Completed {
        rep.probe("bisync_real_run_not_completed", 1);
        return;
    }
    let a1 = strip_staging(&tree_bytes(&real.world, HOST, ROOT_A));
    let b1 = strip_staging(&tree_bytes(&real.world, HOST, ROOT_B));
    // parse "<Action padded to 22> <path>" records with the known path set
    let out = dry.procs[0].out_str();
    let paths: BTreeSet<&String> = a0.keys().chain(b0.keys()).collect();
    let mut printed: Vec<(String, String)> = Vec::new();
    for p in &paths {
        for act in ["PropagateAtoB", "PropagateBtoA", "ConvergeIdentical", "DeleteA", "DeleteB", "Conflict(BothChanged)", "Conflict(DeleteVsModify)"] {
            let line = format!("{:<22} {}\n", act, p);
            if out.contains(&line) {
                // make sure a longer path with this one as a suffix is not what matched
                printed.push((act.to_string(), (*p).clone()));
            }
        }
    }
    // expected effects per printed action, applied to (a0, b0)
    let mut ea = a0.clone();
    let mut eb = b0.clone();
    let host = host_id(h.hostname_env);
    let mut acted: BTreeSet<String> = BTreeSet::new();
    for (act, p) in &printed {
        acted.insert(p.clone());
        match act.as_str() {
            "PropagateAtoB" => {
                if let Some(c) = a0.get(p) {
                    eb.insert(p.clone(), c.clone());
                }
            }
            "PropagateBtoA" => {
                if let Some(c) = b0.get(p) {
                    ea.insert(p.clone(), c.clone());
                }
            }
            "DeleteA" => {
                ea.remove(p);
            }
            "DeleteB" => {
                eb.remove(p);
            }
            "Conflict(DeleteVsModify)" => {
                if let Some(c) = a0.get(p) {
                    eb.insert(p.clone(), c.clone());
                } else if let Some(c) = b0.get(p) {
                    ea.insert(p.clone(), c.clone());
                }
            }
            "Conflict(BothChanged)" => {
                if let (Some(ca), Some(cb)) = (a0.get(p), b0.get(p)) {
                    let (win, lose) = if b3(ca) >= b3(cb) { (ca, cb) } else { (cb, ca) };
                    let lname = format!("{p}.conflict-{host}-{}", short_hex(&b3(lose)));
                    ea.insert(p.clone(), win.clone());
                    eb.insert(p.clone(), win.clone());
                    ea.insert(lname.clone(), lose.clone());
                    eb.insert(lname, lose.clone());
                }
            }
            _ => {}
        }
    }
    // paths the real run changed must all be acted-on paths (or conflict names derived from them)
    for (side, t0, t1) in [("A", &a0, &a1), ("B", &b0, &b1)] {
        let keys: BTreeSet<&String> = t0.keys().chain(t1.keys()).collect();
        for p in keys {
            if t0.get(p) != t1.get(p) {
                let covered = acted.iter().any(|q| at_or_conflict_of(p, q));
                if !covered {
                    rep.fail("c15.bisync_dry_run_is_the_plan", "real-run-does-what-dry-run-did-not-print", format!("side {side}: {p:?} changed in the real run but no action was printed for it; printed {printed:?}"));
                    return;
                }
            }
        }
    }
    // the real run announces the same plan size
    if let (Some(pd), Some(pr)) = (plan_line(&dry), plan_line(&real)) {
        if pd != pr {
            rep.fail("c15.bisync_dry_run_is_the_plan", "real-run-plans-differently-than-dry-run", format!("dry run announced {pd:?} (actions, conflicts), the real run from the same state {pr:?}"));
            return;
        }
    }
    // conflict-copy names of printed conflicts that are themselves live or acted-on paths: there the
    // printed actions interact (the copy and the other action want the same name), and what the
    // property's other clauses (C02/C06) require is that the sides agree and no version is dropped
    let mut colliding: BTreeSet<String> = BTreeSet::new();
    for (act, p) in &printed {
        if act == "Conflict(BothChanged)" {
            if let (Some(ca), Some(cb)) = (a0.get(p), b0.get(p)) {
                let lose = if b3(ca) >= b3(cb) { cb } else { ca };
                let lname = format!("{p}.conflict-{host}-{}", short_hex(&b3(lose)));
                if a0.contains_key(&lname) || b0.contains_key(&lname) {
                    colliding.insert(lname);
                }
            }
        }
    }
    // every printed action's primary effect is observed (conflict-copy collisions may add more names)
    for p in &acted {
        if colliding.contains(p) {
            rep.probe("printed_action_on_a_conflict_copy_name_in_use", 1);
            let mut versions: Vec<&Vec<u8>> = Vec::new();
            versions.extend(a0.get(p));
            versions.extend(b0.get(p));
            versions.extend(ea.get(p));
            versions.extend(eb.get(p));
            let kept = versions.iter().all(|v| has_version(&a1, p, v) && has_version(&b1, p, v));
            if a1.get(p) != b1.get(p) || !kept {
                rep.fail("c15.bisync_dry_run_is_the_plan", "printed-action-on-conflict-copy-name-drops-a-version", format!("path {p:?}: printed {:?}; real run gives A={:?} B={:?}",
                    printed.iter().filter(|(_, q)| q == p).map(|(a, _)| a).collect::<Vec<_>>(),
                    a1.get(p).map(|x| short_hex(&b3(x))), b1.get(p).map(|x| short_hex(&b3(x)))));
                return;
            }
            continue;
        }
        if ea.get(p) != a1.get(p) || eb.get(p) != b1.get(p) {
            rep.fail("c15.bisync_dry_run_is_the_plan", "printed-action-not-what-real-run-does", format!("path {p:?}: printed {:?}; expected A={:?} B={:?}, real run gives A={:?} B={:?}",
                printed.iter().filter(|(_, q)| q == p).map(|(a, _)| a).collect::<Vec<_>>(),
                ea.get(p).map(|x| short_hex(&b3(x))), eb.get(p).map(|x| short_hex(&b3(x))), a1.get(p).map(|x| short_hex(&b3(x))), b1.get(p).map(|x| short_hex(&b3(x)))));
            if std::env::var_os("SIM_DEBUG").is_some() {
                let show = |t: &std::collections::BTreeMap<String, Vec<u8>>| t.iter().map(|(k, v)| format!("{k:?}={}", short_hex(&b3(v)))).collect::<Vec<_>>().join(", ");
                std::eprintln!("dry-run output:\n{out}\nA0: {}\nB0: {}\nA1: {}\nB1: {}\nreal stdout:\n{}\nreal stderr:\n{}", show(&a0), show(&b0), show(&a1), show(&b1), real.procs[0].out_str(), real.procs[0].err_str());
            }
            return;
        }
    }
    let n_plan = plan_line(&dry).map_or(0, |p| p.0);
    if n_plan as usize != printed.len() {
        // names with embedded newlines / suffix overlaps make the count ambiguous: only a probe
        rep.probe("bisync_plan_count_ambiguous", 1);
    }
    rep.probe("bisync_dry_run_compared", 1);
    if !printed.is_empty() {
        rep.probe("dry_run_listed_actions", 1);
        rep.nontrivial = true;
    }
    rep.shape = fnv(&[real.shape, dry.shape]);
}
