//! C11 — a hub client can never reach outside the served directory.
//! C12 — the hub's wire input is handled totally, boundedly and in step.

use super::hub_common::*;
use crate::common::*;
use crate::framework::*;
use crate::gen::{fnv, fnv_bytes, hex};
use copia_simworld::kernel::*;
use copia_simworld::rng::Rng;
use serde::{Deserialize, Serialize};
use serde_json::{json, Value};

pub struct C11;

fn hostile_path(r: &mut Rng) -> String {
    let comps = ["..", ".", "", "name", "..name", "a..b", "dir", "k1", "etc", "secret", "hub-evil", "srv", "passwd", "é", "猫猫", "naïve"];
    let n = r.urange(1, 5);
    let mut parts: Vec<String> = (0..n).map(|_| (*r.pick(&comps)).to_string()).collect();
    if r.below(12) == 0 {
        parts.push("L".repeat(255));
    }
    if r.below(25) == 0 {
        parts.push("M".repeat(4096));
    }
    // medium-long components, ASCII and multi-byte, of every length around 64 bytes
    if r.below(6) == 0 {
        let n = r.urange(55, 70);
        let mut c = "a".repeat(n);
        if r.coin() {
            c.push('é');
            c.push_str(&"b".repeat(r.urange(0, 8)));
        }
        parts.insert(r.usize_below(parts.len() + 1), c);
    }
    let sep = if r.below(4) == 0 { "//" } else { "/" };
    let mut s = parts.join(sep);
    if r.below(3) == 0 {
        s = format!("/{s}");
    }
    if r.below(4) == 0 {
        s.push('/');
    }
    // rarely: a refused path as large as a request frame allows (1 MiB), plain or made of
    // characters that every escaping/quoting scheme expands
    if r.below(60) == 0 {
        return match r.below(3) {
            0 => format!("../{}", "A".repeat((1 << 20) - 400)),
            1 => format!("/{}", "\u{1}".repeat(230_000)),
            _ => format!("../{}", "\"\\".repeat(270_000)),
        };
    }
    // a few classics
    match r.below(12) {
        0 => "../secret".into(),
        1 => "/etc/passwd".into(),
        2 => "../hub-evil/x".into(),
        3 => "dir/../../neighbour".into(),
        4 => "../../secret".into(),
        _ => s,
    }
}

/// Refused by the statement: absolute, or has a `..` component.
pub fn must_refuse(p: &str) -> bool {
    p.starts_with('/') || p.split('/').any(|c| c == "..")
}

fn is_hostile_req(q: &Req) -> bool {
    match q {
        Req::Put { path, .. } | Req::Delete { path, .. } | Req::Get { path } => must_refuse(path),
        _ => false,
    }
}

fn outside_root(path: &str) -> bool {
    !(path == ROOT || path.starts_with(&format!("{ROOT}/")))
}

impl Check for C11 {
    type Sc = HubSc;
    fn id(&self) -> &'static str {
        "C11"
    }
    fn level(&self) -> &'static str {
        "exploration"
    }
    fn rule(&self) -> String {
        "one run = 1..2 real serve processes on a host whose file system also holds sentinel files outside ROOT (/srv/secret, /etc/passwd, /srv/hub-evil/x sharing ROOT's prefix, /srv/neighbour, /secret); sessions of 2..7 requests mixing benign ones with Get/Put(with body, in pieces)/Delete whose path is built from {.., ., empty, names, ..name, a..b, 255- and 4096-byte names} joined by / and //, optional leading and trailing /. The trace of every server call is checked for objects outside ROOT; each session is re-run with the refused requests replaced by Hello and all other replies must be identical. Non-trivial = at least one refused request followed by a benign one; distinct = hash of the path strings and request kinds".into()
    }
    fn assumptions(&self) -> Vec<String> {
        vec!["served tree without symlinks; trace paths are physical (resolved) locations in SimFs".into()]
    }
    fn components(&self) -> Value {
        json!({"real": ["copia serve"], "simulated": ["file system with sentinels", "pipes", "client actor"]})
    }
    fn runs(&self, tier: Tier) -> u64 {
        match tier {
            Tier::Quick => 4_000,
            Tier::Thorough => 600_000,
        }
    }
    fn generate(&self, seed: u64, _tier: Tier) -> HubSc {
        let mut r = Rng::new(seed);
        let n = if r.below(4) == 0 { 2 } else { 1 };
        let mut clients = Vec::new();
        for _ in 0..n {
            let mut reqs = Vec::new();
            for _ in 0..r.urange(2, 7) {
                let hostile = r.below(2) == 0;
                let path = if hostile { hostile_path(&mut r) } else { (*r.pick(&["k1", "dir/k2", "new/one", "k5"])).to_string() };
                match r.below(4) {
                    0 => reqs.push(Req::Get { path }),
                    1 => reqs.push(Req::Delete { path, expected: if r.coin() { Exp::Initial } else { Exp::None } }),
                    2 => reqs.push(Req::List),
                    _ => reqs.push(Req::Put {
                        path,
                        expected: *r.pick(&[Exp::None, Exp::Initial, Exp::Learned]),
                        size: *r.pick(&[24u32, 100, 100, 9000, 70_000]),
                        declared: Declared::Valid,
                        shared_body: None,
                    }),
                }
            }
            // a third of the clients pipeline their requests (send everything, then read)
            let pipeline = n == 1 && r.below(3) == 0;
            if pipeline {
                for q in &mut reqs {
                    // (a pipelined client cannot learn from replies)
                    if let Req::Put { expected, .. } | Req::Delete { expected, .. } = q {
                        if *expected == Exp::Learned {
                            *expected = Exp::Initial;
                        }
                    }
                }
            }
            clients.push(ClientProg { reqs, chunk_seed: r.next_u64(), magic: true, bye: true, pipeline, pad: Vec::new() });
        }
        HubSc {
            seed: r.next_u64(),
            init: vec![("k1".into(), 1), ("dir/k2".into(), 2)],
            clients,
            policy: PolicySpec::random(&mut r),
            pipe_cap: *r.pick(&[4096u32, 65536, 1 << 20]),
            short_read_pct: *r.pick(&[0u32, 30]),
            kill: None,
            sentinels: true,
            io_fault: None,
        }
    }
    fn execute(&self, sc: &HubSc) -> RunReport {
        let mut rep = RunReport::default();
        let run = run_hub(sc, None);
        rep.execs = 1;
        rep.steps = run.out.stats.steps;
        let n_hostile = sc.clients.iter().flat_map(|c| c.reqs.iter()).filter(|q| is_hostile_req(q)).count();
        rep.probe("refused_class_requests", n_hostile as u64);
        rep.shape = fnv(&[fnv_bytes(serde_json::to_string(&sc.clients).unwrap_or_default().as_bytes())]);
        // (1) FS monitor over every server call
        let server_pids: Vec<Pid> = run.out.procs.iter().filter(|p| p.role.starts_with("serve")).map(|p| p.pid).collect();
        for r in &run.out.trace {
            if !server_pids.contains(&r.pid) {
                continue;
            }
            let touches = matches!(
                r.kind,
                OpKind::Open | OpKind::Rename | OpKind::Unlink | OpKind::Rmdir | OpKind::Write | OpKind::SetMtime | OpKind::SetLen | OpKind::Readdir | OpKind::Readlink
            ) || (r.kind == OpKind::Mkdir && r.ok);
            if !touches {
                continue;
            }
            for p in [&r.path, &r.path2] {
                if !p.is_empty() && !p.starts_with("pipe:") && outside_root(p) {
                    let short = if p.len() > 120 { format!("{}…", &p[..120]) } else { p.clone() };
                    rep.fail("c11.confined", "server-touched-object-outside-root", format!("{:?} on {short:?} (ok={})", r.kind, r.ok));
                    return rep;
                }
            }
        }
        // sentinels and everything outside ROOT unchanged
        let before = run.world0.fs(HUB).tree("/");
        let after = run.out.world.fs(HUB).tree("/");
        for (p, (b, _)) in &before {
            if !p.starts_with("srv/hub/") && after.get(p).map(|x| &x.0) != Some(b) {
                rep.fail("c11.confined", "file-outside-root-changed", format!("{p:?}"));
                return rep;
            }
        }
        for p in after.keys() {
            if !p.starts_with("srv/hub/") && !before.contains_key(p) {
                rep.fail("c11.confined", "file-created-outside-root", format!("{p:?}"));
                return rep;
            }
        }
        // (2) refused => Error reply
        let ops = all_ops(&run.logs);
        for o in &ops {
            let p = match &o.kind {
                OpKindH::Put { path, .. } | OpKindH::Delete { path, .. } | OpKindH::Get { path } => path,
                _ => continue,
            };
            if must_refuse(p) {
                match &o.resp {
                    Some((_, Reply::Error(_))) => {}
                    other => {
                        rep.fail("c11.refused", "escaping-path-not-refused", format!("{} (reply {:?})", describe(o), other.as_ref().map(|x| &x.1)));
                        return rep;
                    }
                }
            }
        }
        // differential: refused requests replaced by Hello — every other reply and the tree identical
        if n_hostile > 0 && sc.clients.len() == 1 {
            let mut ctl = sc.clone();
            for c in &mut ctl.clients {
                for q in &mut c.reqs {
                    if is_hostile_req(q) {
                        *q = Req::Hello;
                    }
                }
            }
            let crun = run_hub(&ctl, None);
            rep.execs += 1;
            let cops = all_ops(&crun.logs);
            let benign_after = ops.iter().zip(cops.iter()).filter(|(a, _)| !matches!(&a.kind, OpKindH::Put { path, .. } | OpKindH::Delete { path, .. } | OpKindH::Get { path } if must_refuse(path))).count();
            if benign_after > 0 {
                rep.nontrivial = true;
            }
            if ops.len() != cops.len() {
                rep.fail("c11.session_usable", "session-broken-after-refusal", format!("{} replies with the refused requests, {} without", ops.len(), cops.len()));
                return rep;
            }
            for (a, b) in ops.iter().zip(cops.iter()) {
                let hostile = matches!(&a.kind, OpKindH::Put { path, .. } | OpKindH::Delete { path, .. } | OpKindH::Get { path } if must_refuse(path));
                if hostile {
                    continue;
                }
                if a.resp.as_ref().map(|x| &x.1) != b.resp.as_ref().map(|x| &x.1) {
                    rep.fail("c11.session_usable", "reply-differs-after-refusal", format!("with refusal: {}\n    without: {}", describe(a), describe(b)));
                    return rep;
                }
            }
            let t1 = tree_bytes(&run.out.world, HUB, ROOT);
            let t2 = tree_bytes(&crun.out.world, HUB, ROOT);
            let d1 = run.out.world.fs(HUB).dirs(ROOT);
            let d2 = crun.out.world.fs(HUB).dirs(ROOT);
            if t1 != t2 || d1 != d2 {
                rep.fail("c11.refused", "refused-request-left-something-behind", format!("files {:?} vs {:?}; dirs {:?} vs {:?}", t1.keys().collect::<Vec<_>>(), t2.keys().collect::<Vec<_>>(), d1, d2));
                return rep;
            }
        }
        for p in &run.out.procs {
            if let ExitKind::Aborted(m) = &p.exit {
                rep.fail("c11.no_crash", "server-panicked", format!("{}: {m}", p.role));
            }
        }
        rep
    }
    fn shrink(&self, sc: &HubSc) -> Vec<HubSc> {
        super::c03::shrink_hub(sc)
    }
    fn expected_probes(&self) -> Vec<&'static str> {
        vec!["refused_class_requests"]
    }
}

// ------------------------------------------------------------------------------------
// C12
// ------------------------------------------------------------------------------------

pub struct C12;

#[derive(Clone, Debug, Serialize, Deserialize)]
pub struct Sc12 {
    pub seed: u64,
    /// 0 raw stream (bytes below), 1 structured session with error-provoking requests
    pub mode: u8,
    pub stream_hex: String,
    /// close the input after this many bytes (None = after everything)
    pub cut: Option<u32>,
    /// the stream starts with a valid prologue and one complete well-formed request of
    /// this many bytes (0 = no such prefix: nothing may be mutated at all)
    pub valid_prefix: u32,
    /// end offset of the first frame that is well-framed but does not decode as a request
    /// (0 = none): the session ends there, nothing behind it may have any effect
    #[serde(default)]
    pub poison: u32,
    pub session: Option<HubSc>,
    pub pipe_cap: u32,
    pub short_read_pct: u32,
}

fn frame(req: &crate::copia_main::verif_entry::Request) -> Vec<u8> {
    let mut v = Vec::new();
    let _ = crate::copia_main::verif_entry::write_frame(&mut v, req);
    v
}

fn cbor_hostile(r: &mut Rng) -> Vec<u8> {
    // CBOR heads with huge declared lengths, indefinite lengths, deep nesting
    let body: Vec<u8> = match r.below(7) {
        0 => vec![0x7B, 0xFF, 0xFF, 0xFF, 0xFF, 0xFF, 0xFF, 0xFF, 0xFF], // text, len 2^64-1
        1 => vec![0x5B, 0x7F, 0xFF, 0xFF, 0xFF, 0xFF, 0xFF, 0xFF, 0xFF], // bytes, len 2^63-1
        2 => vec![0x9B, 0x00, 0x00, 0x00, 0x01, 0x00, 0x00, 0x00, 0x00], // array of 2^32
        3 => vec![0xBB, 0x00, 0x00, 0x00, 0x00, 0xFF, 0xFF, 0xFF, 0xFF], // map of 2^32-1
        4 => {
            let n = r.urange(300, 100_000);
            std::iter::repeat(0x81u8).take(n).collect()
        }
        5 => {
            let n = r.urange(10, 5000);
            vec![0x9F; n]
        }
        _ => {
            // {"Put": {"path": <text with 2^40 declared length> ...
            let mut v = vec![0xA1, 0x63, b'P', b'u', b't', 0xA4, 0x64, b'p', b'a', b't', b'h', 0x7B, 0, 0, 1, 0, 0, 0, 0, 0];
            v.extend_from_slice(b"abc");
            v
        }
    };
    let mut out = (body.len() as u32).to_be_bytes().to_vec();
    out.extend_from_slice(&body);
    out
}

impl Check for C12 {
    type Sc = Sc12;
    fn id(&self) -> &'static str {
        "C12"
    }
    fn level(&self) -> &'static str {
        "exploration"
    }
    fn rule(&self) -> String {
        "one run = one byte stream fed to a real serve process in seeded pieces and closed at a chosen offset: random bytes (with and without the COPIA1 prologue, banner text before it), valid sessions with a frame mutated / truncated / duplicated / reordered, length prefixes {0,1,2^20-1,2^20,2^20+1,2^24,2^31,2^32-1}, CBOR heads declaring up to 2^64-1 bytes or 2^32 elements, indefinite lengths, nesting depth to 100000; or a structured session in which well-framed requests provoke error replies (bad path with body, hash mismatch, not found; some frames carrying surplus bytes after their CBOR item) and is compared with the same session without them. Thorough also closes the input at every byte offset of sampled sessions. Non-trivial = the server consumed at least one complete frame or rejected a hostile length; distinct = hash of (stream bytes, cut)".into()
    }
    fn assumptions(&self) -> Vec<String> {
        vec![
            "allocation bound: largest single request of the server's own code between start and exit, measured by the counting allocator on that process's thread (simulator-internal work is excluded)".into(),
            "'spins' = exceeds 400000 simulated steps after its input is closed".into(),
        ]
    }
    fn components(&self) -> Value {
        json!({"real": ["copia serve incl. wire.rs read_magic/read_frame and ciborium decoding"], "simulated": ["pipes with seeded chunking and cut points", "file system monitor", "allocator monitor"]})
    }
    fn runs(&self, tier: Tier) -> u64 {
        match tier {
            Tier::Quick => 10_000,
            Tier::Thorough => 1_500_000,
        }
    }
    fn generate(&self, seed: u64, tier: Tier) -> Sc12 {
        use crate::copia_main::verif_entry::Request;
        let mut r = Rng::new(seed);
        if r.below(5) == 0 {
            // structured session with error-provoking, well-framed requests
            let mut reqs = Vec::new();
            for _ in 0..r.urange(3, 8) {
                match r.below(10) {
                    0 => reqs.push(Req::Put { path: "../evil".into(), expected: Exp::None, size: *r.pick(&[24u32, 5000, 300_000]), declared: Declared::Valid, shared_body: None }),
                    1 => reqs.push(Req::Put { path: "k1".into(), expected: Exp::Learned, size: *r.pick(&[24u32, 5000, 300_000]), declared: Declared::WrongHash, shared_body: None }),
                    2 => reqs.push(Req::Get { path: "missing".into() }),
                    3 => reqs.push(Req::Delete { path: "/abs".into(), expected: Exp::None }),
                    8 => {
                        // a refused path longer than 64 bytes with a multi-byte character near byte 64
                        let n = r.urange(55, 66);
                        reqs.push(Req::Get { path: format!("../{}é{}", "a".repeat(n), "b".repeat(5)) });
                    }
                    9 => {
                        // passes the path check, but its staging file cannot be created: the server
                        // may answer Error or end the session; if it answers, it must stay in step
                        let p = (*r.pick(&["newdir/", "k1/", "zz/"])).to_string();
                        let p = if r.below(3) == 0 { "n".repeat(250) } else { p };
                        reqs.push(Req::Put { path: p, expected: Exp::None, size: *r.pick(&[24u32, 200, 5000]), declared: Declared::Valid, shared_body: None });
                    }
                    4 => reqs.push(Req::Put { path: (*r.pick(&["k1", "n/new"])).into(), expected: Exp::Learned, size: 40, declared: Declared::Valid, shared_body: None }),
                    5 => reqs.push(Req::Get { path: "k1".into() }),
                    6 => reqs.push(Req::List),
                    _ => reqs.push(Req::Delete { path: "k1".into(), expected: Exp::Learned }),
                }
            }
            // a quarter of the sessions: one or two frames carry surplus bytes after their CBOR item
            // (the length prefix covers them) — zeros, noise, or a complete hidden Delete frame.
            // The request inside is complete, so it must be served as if the surplus were not there.
            let mut pad: Vec<(u32, String)> = Vec::new();
            if r.below(4) == 0 && !reqs.is_empty() {
                for _ in 0..r.urange(1, 2) {
                    let idx = r.usize_below(reqs.len()) as u32;
                    let bytes = match r.below(3) {
                        0 => vec![0u8; r.urange(1, 16)],
                        1 => {
                            let n = r.urange(1, 40);
                            r.bytes(n)
                        }
                        _ => frame(&Request::Delete { path: "k1".into(), expected: None }),
                    };
                    if !pad.iter().any(|(i, _)| *i == idx) {
                        pad.push((idx, hex(&bytes)));
                    }
                }
            }
            let sess = HubSc {
                seed: r.next_u64(),
                init: vec![("k1".into(), 1)],
                clients: vec![ClientProg { reqs, chunk_seed: r.next_u64(), magic: true, bye: r.coin(), pipeline: r.below(3) == 0, pad }],
                policy: PolicySpec { kind: 0, a: 0, b: 0 },
                pipe_cap: *r.pick(&[4096u32, 65536]),
                short_read_pct: *r.pick(&[0u32, 40]),
                kill: None,
                sentinels: false,
                io_fault: None,
            };
            return Sc12 { seed: r.next_u64(), mode: 1, stream_hex: String::new(), cut: None, valid_prefix: 0, poison: 0, session: Some(sess), pipe_cap: 65536, short_read_pct: 0 };
        }
        let mut stream: Vec<u8> = Vec::new();
        let mut valid_prefix = 0u32;
        let mut poison = 0u32;
        let kind = r.below(10);
        let magic_ok = kind != 0;
        match kind {
            0 => {
                // no / wrong / late prologue
                match r.below(4) {
                    0 => stream.extend_from_slice(b"Welcome to Ubuntu 22.04 LTS\nCOPIA1"),
                    1 => stream.extend_from_slice(b"COPIA2"),
                    2 => stream.extend_from_slice(b"COPI"),
                    _ => {
                        let n = r.urange(0, 40);
                        stream.extend(r.bytes(n));
                    }
                }
                stream.extend(frame(&Request::Put { path: "k1".into(), expected: None, len: 3, hash: b3(b"abc") }));
                stream.extend_from_slice(b"abc");
            }
            _ => stream.extend_from_slice(b"COPIA1"),
        }
        if magic_ok {
            // a valid first request?
            if r.below(3) == 0 {
                // the request is well-formed once its frame is complete (content follows it)
                match r.below(3) {
                    0 => {
                        stream.extend(frame(&Request::List));
                        valid_prefix = stream.len() as u32;
                    }
                    1 => {
                        stream.extend(frame(&Request::Hello { version: 1 }));
                        valid_prefix = stream.len() as u32;
                    }
                    _ => {
                        stream.extend(frame(&Request::Put { path: "p".into(), expected: None, len: 5, hash: b3(b"hello") }));
                        valid_prefix = stream.len() as u32;
                        stream.extend_from_slice(b"hello");
                    }
                }
            }
            // then hostile material
            for _ in 0..r.urange(1, 3) {
                match r.below(11) {
                    9 | 10 => {
                        // a well-framed Put that does not decode (hash of 31 elements, or the hash as a
                        // CBOR byte string of a wrong length), followed by "content" that is itself a
                        // complete Delete of the one existing file: the session must END at the frame
                        // that does not decode — nothing behind it may be executed
                        let mut body = vec![0xA1, 0x63, b'P', b'u', b't', 0xA4];
                        body.extend_from_slice(&[0x64, b'p', b'a', b't', b'h', 0x62, b'z', b'z']);
                        body.extend_from_slice(&[0x68, b'e', b'x', b'p', b'e', b'c', b't', b'e', b'd', 0xF6]);
                        body.extend_from_slice(&[0x63, b'l', b'e', b'n', 0x18, 0x40]);
                        body.extend_from_slice(&[0x64, b'h', b'a', b's', b'h']);
                        if r.coin() {
                            body.push(0x98);
                            body.push(31);
                            body.extend(std::iter::repeat(0x07u8).take(31));
                        } else {
                            let n = *r.pick(&[0usize, 31, 31]); // (33 is accepted: serde cuts an over-long sequence to 32)
                            body.push(0x58);
                            body.push(n as u8);
                            body.extend(std::iter::repeat(0x07u8).take(n));
                        }
                        stream.extend_from_slice(&(body.len() as u32).to_be_bytes());
                        stream.extend(body);
                        if poison == 0 {
                            poison = stream.len() as u32;
                        }
                        stream.extend(frame(&Request::Delete { path: "k1".into(), expected: Some(b3(&init_body(1))) }));
                        let n = r.urange(0, 40);
                        stream.extend(r.bytes(n));
                    }
                    8 => {
                        // a valid Delete of the one existing file inside a frame that announces
                        // surplus bytes: the request is complete only when the WHOLE frame has
                        // arrived — an input that ends inside the surplus must change nothing
                        let mut f = frame(&Request::Delete { path: "k1".into(), expected: Some(b3(&init_body(1))) });
                        let pad = r.urange(8, 64);
                        let len = u32::from_be_bytes([f[0], f[1], f[2], f[3]]) + pad as u32;
                        f[..4].copy_from_slice(&len.to_be_bytes());
                        stream.extend(f);
                        stream.extend(std::iter::repeat(0u8).take(pad));
                        if valid_prefix == 0 {
                            valid_prefix = stream.len() as u32;
                        }
                    }
                    0 => {
                        let l = *r.pick(&[0u32, 1, (1 << 20) - 1, 1 << 20, (1 << 20) + 1, 1 << 24, 1 << 31, u32::MAX]);
                        stream.extend_from_slice(&l.to_be_bytes());
                        let n = r.urange(0, 64);
                        stream.extend(r.bytes(n));
                    }
                    1 => stream.extend(cbor_hostile(&mut r)),
                    2 => {
                        let n = r.urange(1, 200);
                        stream.extend(r.bytes(n));
                    }
                    3 => {
                        // mutated valid frame
                        let mut f = frame(&Request::Put { path: "mut".into(), expected: Some([7; 32]), len: 4, hash: b3(b"data") });
                        let i = r.usize_below(f.len());
                        f[i] ^= 1 << r.below(8);
                        stream.extend(f);
                        if valid_prefix == 0 {
                            valid_prefix = stream.len() as u32; // may still be well-formed
                        }
                        stream.extend_from_slice(b"data");
                    }
                    4 => {
                        // duplicated frame without its body
                        let f = frame(&Request::Put { path: "dup".into(), expected: None, len: 2, hash: b3(b"xy") });
                        stream.extend_from_slice(&f);
                        if valid_prefix == 0 {
                            valid_prefix = stream.len() as u32;
                        }
                        stream.extend_from_slice(&f);
                        stream.extend_from_slice(b"xy");
                    }
                    5 => {
                        // body before its frame (reordered)
                        stream.extend_from_slice(b"zz");
                        stream.extend(frame(&Request::Put { path: "re".into(), expected: None, len: 2, hash: b3(b"zz") }));
                        if valid_prefix == 0 {
                            valid_prefix = stream.len() as u32;
                        }
                    }
                    6 => {
                        // Put with an enormous declared len and no content
                        stream.extend(frame(&Request::Put { path: "huge".into(), expected: None, len: u64::MAX, hash: [0; 32] }));
                        if valid_prefix == 0 {
                            valid_prefix = stream.len() as u32;
                        }
                    }
                    _ => {
                        stream.extend(frame(&Request::Get { path: "k1".into() }));
                        if valid_prefix == 0 {
                            valid_prefix = stream.len() as u32;
                        }
                        stream.extend(frame(&Request::Bye));
                    }
                }
            }
        }
        // thorough: one stream in 20 is closed at EVERY byte offset (cut = u32::MAX marks the sweep)
        let cut = if tier == Tier::Thorough && stream.len() <= 400 && r.below(20) == 0 {
            Some(u32::MAX)
        } else {
            match r.below(3) {
                0 => None,
                _ => Some(r.below(stream.len() as u64 + 1) as u32),
            }
        };
        Sc12 {
            seed: r.next_u64(),
            mode: 0,
            stream_hex: hex(&stream),
            cut,
            valid_prefix,
            poison,
            session: None,
            pipe_cap: if stream.len() > 1500 { *r.pick(&[4096u32, 65536]) } else { *r.pick(&[1u32, 7, 4096, 65536]) },
            short_read_pct: *r.pick(&[0u32, 30, 80]),
        }
    }
    fn execute(&self, sc: &Sc12) -> RunReport {
        let mut rep = RunReport::default();
        if sc.mode == 1 {
            let Some(sess) = &sc.session else { return rep };
            let may_be_fatal = |q: &Req| matches!(q, Req::Put { path, .. } if path.ends_with('/') || path.len() >= 250);
            let is_err_req = |q: &Req| match q {
                Req::Put { path, declared, .. } => super::c11::must_refuse(path) || *declared == Declared::WrongHash || path.ends_with('/') || path.len() >= 250,
                Req::Get { path } => path == "missing" || super::c11::must_refuse(path),
                Req::Delete { path, .. } => super::c11::must_refuse(path),
                _ => false,
            };
            let run = run_hub(sess, None);
            let mut ctl = sess.clone();
            for q in &mut ctl.clients[0].reqs {
                if is_err_req(q) {
                    *q = Req::Hello;
                }
            }
            // (the control session's frames carry no surplus bytes)
            ctl.clients[0].pad.clear();
            if !sess.clients[0].pad.is_empty() {
                rep.fault("frame_with_surplus_bytes", sess.clients[0].pad.len() as u64);
            }
            let crun = run_hub(&ctl, None);
            rep.execs = 2;
            rep.steps = run.out.stats.steps + crun.out.stats.steps;
            let (a, b) = (all_ops(&run.logs), all_ops(&crun.logs));
            let nerr = sess.clients[0].reqs.iter().filter(|q| is_err_req(q)).count();
            rep.probe("error_reply_requests", nerr as u64);
            rep.nontrivial = nerr > 0 || !sess.clients[0].pad.is_empty();
            rep.shape = fnv(&[fnv_bytes(serde_json::to_string(&sess.clients).unwrap_or_default().as_bytes())]);
            for p in run.out.procs.iter().chain(crun.out.procs.iter()) {
                if let ExitKind::Aborted(m) = &p.exit {
                    rep.fail("c12.total", "server-panicked", format!("{m}"));
                    return rep;
                }
            }
            // a request whose staging file cannot be created may legitimately END the session
            // (reported I/O error, no reply); the in-step clause applies only if it was answered
            let fatal_at = a.iter().position(|x| sess.clients[0].reqs.get(x.idx).map_or(false, |q| may_be_fatal(q)) && !matches!(&x.resp, Some((_, Reply::Error(_)))));
            if fatal_at.is_none() && a.len() != b.len() {
                rep.fail("c12.in_step", "stream-out-of-step-after-error-reply", format!("{} ops answered with the erroring requests, {} without", a.len(), b.len()));
                return rep;
            }
            for (i, (x, y)) in a.iter().zip(b.iter()).enumerate() {
                if fatal_at.map_or(false, |f| i >= f) {
                    rep.probe("session_ended_by_unstageable_put", 1);
                    return rep;
                }
                let erroring = sess.clients[0].reqs.get(x.idx).map_or(false, |q| is_err_req(q));
                if erroring {
                    if !matches!(&x.resp, Some((_, Reply::Error(_)))) {
                        rep.fail("c12.in_step", "error-provoking-request-not-answered-with-error", describe(x));
                        return rep;
                    }
                    continue;
                }
                if x.resp.as_ref().map(|r| &r.1) != y.resp.as_ref().map(|r| &r.1) {
                    rep.fail("c12.in_step", "stream-out-of-step-after-error-reply", format!("with: {}\n    without: {}", describe(x), describe(y)));
                    return rep;
                }
            }
            if visible_tree(&run.out.world) != visible_tree(&crun.out.world) {
                rep.fail("c12.in_step", "erroring-request-changed-the-tree", String::new());
            }
            let staging: Vec<String> = tree_bytes(&run.out.world, HUB, ROOT).keys().filter(|k| is_staging(k)).cloned().collect();
            if !staging.is_empty() {
                rep.fail("c12.in_step", "staging-left-after-refused-put", format!("{staging:?}"));
            }
            return rep;
        }
        // ---- raw stream
        if sc.cut == Some(u32::MAX) {
            let n = sc.stream_hex.len() / 2;
            for c in 0..=n as u32 {
                let one = Sc12 { cut: Some(c), ..sc.clone() };
                let r2 = self.execute(&one);
                rep.execs += r2.execs;
                rep.steps += r2.steps;
                for (k, v) in &r2.probes {
                    rep.probe(k, *v);
                }
                if r2.violation.is_some() {
                    rep.violation = r2.violation;
                    return rep;
                }
            }
            rep.probe("all_cut_offsets_swept", 1);
            rep.nontrivial = true;
            rep.shape = fnv(&[fnv_bytes(sc.stream_hex.as_bytes()), 0xA11]);
            return rep;
        }
        let bytes: Vec<u8> = (0..sc.stream_hex.len() / 2).map(|i| u8::from_str_radix(&sc.stream_hex[2 * i..2 * i + 2], 16).unwrap_or(0)).collect();
        let cut = sc.cut.map_or(bytes.len(), |c| (c as usize).min(bytes.len()));
        let sess = HubSc {
            seed: sc.seed,
            init: vec![("k1".into(), 1)],
            clients: vec![ClientProg {
                reqs: vec![Req::Raw { hex: hex(&bytes[..cut]), expect_replies: 0 }, Req::CloseInput],
                chunk_seed: sc.seed ^ 0xC12,
                magic: false,
                bye: false,
                pipeline: false,
                pad: Vec::new(),
            }],
            policy: PolicySpec { kind: 0, a: 0, b: 0 },
            pipe_cap: sc.pipe_cap,
            short_read_pct: sc.short_read_pct,
            kill: None,
            sentinels: false,
            io_fault: None,
        };
        let run = run_hub(&sess, None);
        rep.execs = 1;
        rep.steps = run.out.stats.steps;
        rep.shape = fnv(&[fnv_bytes(&bytes), cut as u64]);
        rep.fault("input_cut", u64::from(sc.cut.is_some()));
        // a well-framed frame that does not decode ends the session: whatever follows it in the
        // stream must have no effect — the served tree must end up exactly as when the input is
        // closed right behind that frame (differential; the server reads ahead, so "bytes read"
        // cannot attribute an effect to a request)
        if sc.poison > 0 && cut as u32 > sc.poison {
            let mut ctl = sess.clone();
            ctl.clients[0].reqs = vec![Req::Raw { hex: hex(&bytes[..sc.poison as usize]), expect_replies: 0 }, Req::CloseInput];
            let crun = run_hub(&ctl, None);
            rep.execs += 1;
            rep.fault("undecodable_frame_followed_by_more_input", 1);
            if visible_tree(&run.out.world) != visible_tree(&crun.out.world) {
                rep.fail("c12.no_effect_after_undecodable_frame", "request-executed-after-undecodable-frame", format!("the frame ending at byte {} does not decode as a request: the session has to end there, but the bytes behind it changed the served tree ({:?} vs {:?})", sc.poison, visible_tree(&run.out.world).keys().collect::<Vec<_>>(), visible_tree(&crun.out.world).keys().collect::<Vec<_>>()));
                return rep;
            }
        }
        let srv = &run.out.procs[0];
        // (a) never panics / aborts
        if let ExitKind::Aborted(m) = &srv.exit {
            rep.fail("c12.total", "server-panicked", format!("{m}"));
            return rep;
        }
        // (b) terminates once its input is closed
        if run.out.deadlock || run.out.budget_exceeded {
            rep.fail("c12.total", "server-does-not-terminate-after-input-closed", format!("deadlock={} step-budget-exceeded={}", run.out.deadlock, run.out.budget_exceeded));
            return rep;
        }
        // (c) bounded allocation
        rep.probe("max_alloc_kib", 0);
        if srv.alloc_peak > 3 << 20 {
            rep.fail("c12.bounded", "oversized-allocation-for-control-frame", format!("largest single allocation request of the server: {} bytes", srv.alloc_peak));
            return rep;
        }
        if srv.alloc_peak >= 1 << 20 {
            rep.probe("alloc_at_frame_bound", 1);
        }
        // (d) nothing changed before a valid prologue + one well-formed request
        let mut read_bytes = 0u64;
        for r in &run.out.trace {
            if r.pid != srv.pid {
                continue;
            }
            if r.kind == OpKind::PipeRead {
                read_bytes += r.bytes;
            }
            let startup_dir = r.kind == OpKind::Mkdir && (r.path == ROOT || r.path == format!("{ROOT}/.copia"));
            if r.mutating && r.effect && under_root(&r.path) && !startup_dir {
                // allowed only once a valid prologue and one complete well-formed request
                // (ending at `valid_prefix`) have been delivered and read
                let ok = sc.valid_prefix > 0 && cut as u32 >= sc.valid_prefix && read_bytes >= u64::from(sc.valid_prefix);
                if !ok {
                    rep.fail("c12.no_early_effect", "tree-changed-before-valid-request", format!("{:?} {} after the server had read {read_bytes} bytes; first well-formed request ends at byte {} (0 = none), input cut at {cut}", r.kind, r.path, sc.valid_prefix));
                    return rep;
                }
            }
        }
        if srv.counts[0] > 0 && read_bytes >= 10 {
            rep.nontrivial = true;
        }
        if std::env::var("SIMCHECK_DEBUG").is_ok() {
            eprintln!("server exit={:?} stderr={} alloc_peak={} read={read_bytes}", srv.exit, srv.err_str(), srv.alloc_peak);
        }
        if matches!(srv.exit, ExitKind::Code(c) if c != 0) {
            rep.probe("server_exit_nonzero", 1);
        } else {
            rep.probe("server_exit_zero", 1);
        }
        rep
    }
    fn shrink(&self, sc: &Sc12) -> Vec<Sc12> {
        let mut out = Vec::new();
        if sc.mode == 1 {
            if let Some(s) = &sc.session {
                for x in super::c03::shrink_hub(s) {
                    out.push(Sc12 { session: Some(x), ..sc.clone() });
                }
            }
            return out;
        }
        let n = sc.stream_hex.len() / 2;
        if sc.cut == Some(u32::MAX) {
            return (0..=n as u32).map(|c| Sc12 { cut: Some(c), ..sc.clone() }).collect();
        }
        let cut = sc.cut.map_or(n, |c| c as usize);
        if cut > 0 {
            out.push(Sc12 { cut: Some((cut / 2) as u32), ..sc.clone() });
            out.push(Sc12 { cut: Some((cut - 1) as u32), ..sc.clone() });
        }
        if sc.short_read_pct > 0 {
            out.push(Sc12 { short_read_pct: 0, ..sc.clone() });
        }
        if sc.pipe_cap != 65536 {
            out.push(Sc12 { pipe_cap: 65536, ..sc.clone() });
        }
        out
    }
    fn expected_probes(&self) -> Vec<&'static str> {
        vec!["server_exit_nonzero", "error_reply_requests", "alloc_at_frame_bound"]
    }
}

fn under_root(p: &str) -> bool {
    p == ROOT || p.starts_with(&format!("{ROOT}/"))
}
