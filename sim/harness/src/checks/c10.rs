//! C10 — hub paths only ever hold complete, hash-verified content: invariant evaluated
//! by the kernel after every applied step, under concurrency, invalid Puts and kills.

use super::c03::{gen_clients, hub_probes, pick_pipe_cap, shrink_hub};
use super::hub_common::*;
use crate::common::*;
use crate::framework::*;
use copia_simworld::kernel::*;
use copia_simworld::rng::Rng;
use serde_json::{json, Value};
use std::collections::{BTreeMap, BTreeSet};
use std::sync::{Arc, Mutex};

pub struct C10;

/// The bodies each hub path may legitimately hold: initial content, or the complete body
/// of one valid Put addressed to that path (conflict-copy names: short hash must match).
fn allowed_map(sc: &HubSc, init: &BTreeMap<String, Vec<u8>>) -> BTreeMap<String, BTreeSet<[u8; 32]>> {
    let mut m: BTreeMap<String, BTreeSet<[u8; 32]>> = BTreeMap::new();
    for (p, b) in init {
        m.entry(p.clone()).or_default().insert(b3(b));
    }
    for (ci, c) in sc.clients.iter().enumerate() {
        for (qi, q) in c.reqs.iter().enumerate() {
            if let Req::Put { path, size, declared, shared_body, .. } = q {
                let body = match shared_body {
                    Some(t) => put_body(99, *t as usize, (*size).max(24)),
                    None if *size == 0 => Vec::new(),
                    None => put_body(ci, qi, (*size).max(24)),
                };
                if *declared == Declared::Valid || matches!(declared, Declared::ExcessBytes(_)) {
                    let h = b3(&body);
                    let path = norm_path(path);
                    m.entry(path.clone()).or_default().insert(h);
                    // its conflict-copy (one suffix further when that name holds other content)
                    let sfx = format!(".conflict-{}", short_hex(&h));
                    m.entry(format!("{path}{sfx}")).or_default().insert(h);
                    m.entry(format!("{path}{sfx}{sfx}")).or_default().insert(h);
                }
            }
        }
    }
    m
}

fn rel_of(abs: &str) -> Option<String> {
    let r = abs.strip_prefix(ROOT)?.strip_prefix('/')?;
    if is_hub_private(r) || is_staging(r) || r.is_empty() {
        None
    } else {
        Some(r.to_string())
    }
}

/// Requests for the wave of servers started after a kill: the client whose server inherits the
/// killed server's process id re-writes (shorter bodies) the paths the killed one was writing.
fn second_wave(sc: &HubSc, killed: usize) -> HubSc {
    let mut r = Rng::new(sc.seed ^ 0x2EC0_0D_0A_u64);
    let n = sc.clients.len();
    let (_, mut clients) = gen_clients(&mut r, n, false, 2);
    let mut reqs = Vec::new();
    for q in &sc.clients[killed].reqs {
        if let Req::Put { path, .. } = q {
            if !reqs.iter().any(|x| matches!(x, Req::Put { path: p2, .. } if p2 == path)) {
                reqs.push(Req::Put { path: path.clone(), expected: Exp::Learned, size: 24 + r.below(60) as u32, declared: Declared::Valid, shared_body: None });
            }
        }
    }
    reqs.push(Req::List);
    clients[killed] = ClientProg { reqs, chunk_seed: r.next_u64(), magic: true, bye: true, pipeline: false, pad: Vec::new() };
    HubSc {
        seed: r.next_u64(),
        init: Vec::new(),
        clients,
        policy: PolicySpec::random(&mut r),
        pipe_cap: 65536,
        short_read_pct: 0,
        kill: None,
        sentinels: false,
        io_fault: None,
    }
}

/// One wave of servers and clients in world `w`, judged by the C10 clauses.
fn phase(sc: &HubSc, w: World, init: BTreeMap<String, Vec<u8>>, allowed: &BTreeMap<String, BTreeSet<[u8; 32]>>, rep: &mut RunReport) -> Option<HubRun> {
    let allowed = Arc::new(allowed.clone());
    let first_bad: Arc<Mutex<Option<String>>> = Arc::new(Mutex::new(None));
    let fb = first_bad.clone();
    let al = allowed.clone();
    let hook: StepHook = Box::new(move |st, rec| {
        if !rec.effect || rec.host != HUB {
            return Ok(());
        }
        for abs in [&rec.path, &rec.path2] {
            let Some(rel) = rel_of(abs) else { continue };
            let Some(bytes) = st.world.hosts.get(HUB).and_then(|f| f.get_file(abs)) else {
                continue;
            };
            let ok = al.get(&rel).map_or(false, |s| s.contains(&b3(&bytes)));
            if !ok {
                let msg = format!(
                    "after step {} ({:?} by pid {}), hub path {rel:?} holds {} bytes (blake3 {}) that are neither its initial content nor the complete body of a verified Put addressed to it",
                    rec.seq, rec.kind, rec.pid, bytes.len(), short_hex(&b3(&bytes))
                );
                let mut g = fb.lock().unwrap();
                if g.is_none() {
                    *g = Some(msg.clone());
                }
                return Err(msg);
            }
        }
        Ok(())
    });
    let run = run_hub_in(sc, w, init, Some(hook));
    rep.execs = 1;
    rep.steps = run.out.stats.steps;
    rep.shape = run.out.shape;
    hub_probes(rep, &run);
    rep.fault("server_kill", run.out.stats.kills);
    rep.fault("injected_io_error", run.out.stats.injected_errors);
    rep.fault("short_write", run.out.stats.short_writes);
    let invalid = sc.clients.iter().flat_map(|c| c.reqs.iter()).any(|q| matches!(q, Req::Put { declared, .. } if *declared != Declared::Valid));
    if invalid {
        rep.fault("invalid_put", 1);
    }
    rep.nontrivial = rep.probes.contains_key("overlapping_puts_same_path") || run.out.stats.kills > 0 || invalid;
    if run.out.budget_exceeded {
        rep.harness_error = Some("op budget exceeded".into());
        return None;
    }
    if let Some(m) = first_bad.lock().unwrap().clone() {
        rep.fail("c10.path_invariant", "unverified-or-mixed-bytes-at-live-path", m);
        return None;
    }
    // final sweep over the whole visible tree (catches anything the incremental check missed)
    for (rel, bytes) in visible_tree(&run.out.world) {
        if !allowed.get(&rel).map_or(false, |s| s.contains(&b3(&bytes))) {
            rep.fail("c10.path_invariant", "unverified-or-mixed-bytes-at-live-path", format!("at the end, hub path {rel:?} holds {} bytes (blake3 {}) of no verified write", bytes.len(), short_hex(&b3(&bytes))));
            return None;
        }
    }
    // Get replies: exactly len bytes that hash to hash
    for op in all_ops(&run.logs) {
        if let (OpKindH::Get { path }, Some((_, Reply::Content { len, hash, body }))) = (&op.kind, &op.resp) {
            if body.len() as u64 != *len || b3(body) != *hash {
                // a server killed mid-reply legitimately truncates the stream
                let killed = sc.kill.map_or(false, |(k, _, _)| k as usize == op.client) && run.out.stats.kills > 0;
                // ... and so does a server that stops on an I/O error in the middle of the content
                let failed = sc.io_fault.map_or(false, |(k, _, _)| k as usize == op.client) && run.out.stats.injected_errors > 0 && (body.len() as u64) < *len;
                if !killed && !failed {
                    rep.fail("c10.get_consistent", "get-len-hash-bytes-disagree",
                        format!("Get {path:?}: announced len={len} hash={}, delivered {} bytes hashing to {}", short_hex(hash), body.len(), short_hex(&b3(body))));
                    return None;
                }
            }
        }
    }
    // surviving servers must finish their sessions
    if run.out.deadlock {
        rep.fail("c10.progress", "hub-deadlock", "no process can make progress".into());
        return None;
    }
    for p in &run.out.procs {
        if p.role.starts_with("serve") {
            if let ExitKind::Aborted(m) = &p.exit {
                rep.fail("c10.no_crash", "server-panicked", format!("{}: {m}", p.role));
                return None;
            }
        }
    }
    Some(run)
}

impl Check for C10 {
    type Sc = HubSc;
    fn id(&self) -> &'static str {
        "C10"
    }
    fn level(&self) -> &'static str {
        "exploration"
    }
    fn rule(&self) -> String {
        "request programs and interleavings as in C03 plus invalid Puts (wrong declared hash, body shorter than len then close, excess bytes) and, in a third of the runs, one server killed before a seeded k-th file-system call (thorough: k swept over a reference run); in a quarter of the remaining runs one file-system call of one server fails with an injected errno or one of its file writes is short. After every step the kernel applies, each live hub path touched by that step is compared with the set of contents it may legitimately hold; every Get reply must deliver exactly len bytes hashing to hash. Non-trivial = overlapping Puts on one path, a kill that fired, or an invalid Put; distinct = hash of the interleaved op trace".into()
    }
    fn assumptions(&self) -> Vec<String> {
        vec!["as C03; a killed server's flock and descriptors are released as the OS does".into()]
    }
    fn components(&self) -> Value {
        json!({"real": ["copia serve x N"], "simulated": ["file system", "flock", "pipes", "scheduling", "kill before the k-th file-system call", "injected errno / short write on one server call", "second wave of servers with reused process ids after a kill", "client actors incl. invalid Puts"]})
    }
    fn runs(&self, tier: Tier) -> u64 {
        match tier {
            Tier::Quick => 12_000,
            Tier::Thorough => 1_500_000,
        }
    }
    fn generate(&self, seed: u64, tier: Tier) -> HubSc {
        let mut r = Rng::new(seed);
        let n = r.urange(2, 4);
        let (init, clients) = gen_clients(&mut r, n, true, 5);
        // thorough: one scenario in 25 sweeps EVERY kill point of one server (nth = 0)
        let sweep = tier == Tier::Thorough && r.below(25) == 0;
        let mut pipe_cap = pick_pipe_cap(&mut r, &clients);
        // a client that sends excess bytes without reading can only wedge a tiny pipe:
        // that is the client's protocol violation, not a hub property
        let excess = clients.iter().flat_map(|c| c.reqs.iter()).any(|q| matches!(q, Req::Put { declared: Declared::ExcessBytes(_), .. }));
        if excess {
            pipe_cap = pipe_cap.max(65536);
        }
        let kill = if sweep {
            Some((r.below(n as u64) as u32, 0, r.below(2) as u8))
        } else if r.below(3) == 0 {
            Some((r.below(n as u64) as u32, r.range(1, 60) as u32, r.below(2) as u8))
        } else {
            None
        };
        // without a kill, a quarter of the runs have one failing (or short) file-system call in a server
        let io_fault = if kill.is_none() && r.below(4) == 0 {
            let srv = r.below(n as u64) as u32;
            Some(super::c03::gen_io_fault(&mut r, srv))
        } else {
            None
        };
        HubSc {
            seed: r.next_u64(),
            init,
            clients,
            policy: PolicySpec::random(&mut r),
            pipe_cap,
            short_read_pct: *r.pick(&[0u32, 10, 50]),
            kill,
            sentinels: false,
            io_fault,
        }
    }
    fn execute(&self, sc: &HubSc) -> RunReport {
        if let Some((srv, 0, class)) = sc.kill {
            // kill sweep: reference run without the kill counts the server's calls, then one
            // execution per kill point (same schedule seed: the prefix before the kill is identical)
            let mut base = sc.clone();
            base.kill = None;
            let mut rep = self.execute(&base);
            if rep.violation.is_some() || rep.harness_error.is_some() {
                return rep;
            }
            let refrun = run_hub(&base, None);
            let n = refrun
                .out
                .proc_by_role(&format!("serve{srv}"))
                .map_or(0, |p| p.count(if class == 1 { OpClass::Mutating } else { OpClass::FsCall }));
            for k in 1..=n.min(400) {
                let mut s = sc.clone();
                s.kill = Some((srv, k, class));
                let r2 = self.execute(&s);
                rep.execs += r2.execs;
                rep.steps += r2.steps;
                for (f, v) in &r2.faults {
                    rep.fault(f, *v);
                }
                if r2.violation.is_some() {
                    rep.violation = r2.violation;
                    return rep;
                }
            }
            rep.probe("kill_sweeps", 1);
            rep.probe("kill_points_swept", u64::from(n.min(400)));
            rep.nontrivial = true;
            return rep;
        }
        let mut rep = RunReport::default();
        let (w0, init) = build_world(sc);
        let allowed = allowed_map(sc, &init);
        let Some(run) = phase(sc, w0, init, &allowed, &mut rep) else { return rep };
        // second wave: after a kill, new servers are started on what the first wave left behind
        // (leftover staging files included). The new processes get the SAME process ids (a fresh
        // process table: pid wrap-around / a restarted container), and the one that inherits the
        // killed server's id writes shorter bodies to the paths the killed one was writing.
        if run.out.stats.kills > 0 {
            if let Some((k, _, _)) = sc.kill {
                let sc2 = second_wave(sc, k as usize);
                let init2: BTreeMap<String, Vec<u8>> = visible_tree(&run.out.world);
                let mut allowed2 = allowed.clone();
                for (p, set) in allowed_map(&sc2, &init2) {
                    allowed2.entry(p).or_default().extend(set);
                }
                let mut rep2 = RunReport::default();
                let r2 = phase(&sc2, run.out.world.clone(), init2, &allowed2, &mut rep2);
                rep.execs += rep2.execs;
                rep.steps += rep2.steps;
                rep.probe("second_wave_after_kill", 1);
                if rep2.violation.is_some() {
                    rep.violation = rep2.violation.map(|mut v| {
                        v.detail = format!("second wave (servers restarted with the same process ids after the kill): {}", v.detail);
                        v
                    });
                    return rep;
                }
                if rep2.harness_error.is_some() {
                    rep.harness_error = rep2.harness_error;
                    return rep;
                }
                let _ = r2;
            }
        }
        rep
    }
    fn shrink(&self, sc: &HubSc) -> Vec<HubSc> {
        let mut v = shrink_hub(sc);
        if let Some((srv, 0, class)) = sc.kill {
            let mut pins: Vec<HubSc> = (1..=400u32)
                .map(|k| {
                    let mut s = sc.clone();
                    s.kill = Some((srv, k, class));
                    s
                })
                .collect();
            pins.extend(v);
            return pins;
        }
        if sc.kill.is_some() {
            let mut s = sc.clone();
            s.kill = None;
            v.insert(0, s);
        }
        v
    }
    fn expected_probes(&self) -> Vec<&'static str> {
        vec!["overlapping_puts_same_path", "stale_cas_conflict_copy", "get_content"]
    }
}
