//! C02 — bisync never loses a file version; C06 — converges, records, idempotent.
//! One history executor, two oracles.

use super::bisync_common::*;
use crate::common::*;
use crate::framework::*;
use crate::gen::fnv;
use copia_simworld::fs::{EACCES, EIO, ENOSPC};
use copia_simworld::kernel::*;
use copia_simworld::rng::Rng;
use serde::{Deserialize, Serialize};
use serde_json::{json, Value};

#[derive(Clone, Debug, Serialize, Deserialize)]
pub struct Sc {
    pub hist: History,
    pub cfg_seed: u64,
    pub with_faults: bool,
}

pub struct RunRec {
    pub a0: Tree,
    pub b0: Tree,
    pub a1: Tree,
    pub b1: Tree,
    pub kind: RunKind,
    pub plan: Option<(u64, u64)>,
    pub stderr: String,
    pub stdout: String,
    pub faulted: bool,
    pub short_writes: u64,
    pub conflict_copies_before: usize,
}

pub struct HistRun {
    pub runs: Vec<RunRec>,
    pub steps: u64,
    pub sim_ns: u64,
    pub final_world: World,
    pub shape: u64,
    pub user_steps_applied: u64,
}

pub fn run_cfg(seed: u64) -> RunCfg {
    let mut r = Rng::new(seed);
    let mut cfg = RunCfg::default();
    cfg.seed = r.next_u64();
    cfg.copy_chunk = *r.pick(&[1usize << 10, 1 << 14, 1 << 16, 1 << 17]);
    cfg.readdir_seed = if r.coin() { Some(r.next_u64()) } else { None };
    cfg.clock_jump_pct = *r.pick(&[0u32, 2, 10]);
    cfg.short_read_pct = *r.pick(&[0u32, 0, 25]);
    cfg
}

/// Execute a history. `swap`: name the roots (B, A) in every run. `skew`: extra clock
/// offset for user edits (all mtimes differ). `per_run`: callback after each bisync with
/// the world as it is then (used for idempotence / archive checks); may run more sims.
pub fn exec_history(
    h: &History,
    cfg_seed: u64,
    swap: bool,
    skew: u64,
    per_run: impl FnMut(&World, &RunRec, &Outcome, &Tree) -> Result<(), (String, String, String)>,
) -> Result<HistRun, (String, String, String)> {
    exec_history_named(h, cfg_seed, swap, skew, ROOT_A, new_world(), per_run)
}

/// Like `exec_history`, but the first root is NAMED `a_arg` on the command line (e.g. a
/// symlink to ROOT_A) and the history starts from `w0`.
pub fn exec_history_named(
    h: &History,
    cfg_seed: u64,
    swap: bool,
    skew: u64,
    a_arg: &str,
    w0: World,
    mut per_run: impl FnMut(&World, &RunRec, &Outcome, &Tree) -> Result<(), (String, String, String)>,
) -> Result<HistRun, (String, String, String)> {
    let mut w = w0;
    w.clock_ns += skew;
    let mut runs = Vec::new();
    let mut steps = 0u64;
    let t_start = w.clock_ns;
    let mut shape = 0u64;
    let mut l: Tree = Tree::new();
    let mut applied = 0u64;
    for (si, st) in h.steps.iter().enumerate() {
        match st {
            Step::Write { .. } | Step::Delete { .. } => {
                if apply_user_step(&mut w, st, h, skew / 7).is_some() {
                    applied += 1;
                }
            }
            Step::Bisync | Step::BisyncFault { .. } => {
                let a0 = strip_staging(&tree_bytes(&w, HOST, ROOT_A));
                let b0 = strip_staging(&tree_bytes(&w, HOST, ROOT_B));
                let mut cfg = run_cfg(cfg_seed ^ (si as u64 * 0x9E37));
                let mut faulted = false;
                if let Step::BisyncFault { kind, nth } = st {
                    // only errors on mutating calls: they make the run abort with a reported error.
                    // (Read-side errors are swallowed by design — "skipped, never guessed" — and
                    // are outside C02's quantifier; see DESIGN.md.)
                    if *kind == 4 {
                        // a short write is legal behaviour of write(2), not an error: nothing is relaxed
                        cfg.faults.push(Fault::ShortWrite { target: ProcSel::Role("bisync".into()), nth: *nth });
                    } else {
                        // (5: listing a directory fails — the walk must give up, never treat the
                        // subtree as empty, which would read as "deleted on this side")
                        // (6: removing a file fails — a delete that did not happen must not be
                        // recorded or reported as done)
                        let k = if *kind == 5 { OpKind::Readdir } else if *kind == 6 { OpKind::Unlink } else { [OpKind::Write, OpKind::Rename, OpKind::Mkdir, OpKind::Fsync][*kind as usize % 4] };
                        let e = [EIO, ENOSPC, EACCES][(*nth as usize) % 3];
                        cfg.faults.push(Fault::FailOp {
                            target: ProcSel::Role("bisync".into()),
                            nth: *nth,
                            kind: k,
                            errno: e,
                        });
                        faulted = true;
                    }
                }
                let (ra, rb) = if swap { (ROOT_B, a_arg) } else { (a_arg, ROOT_B) };
                let out = run_bisync(w, cfg, ra, rb, &[], h.hostname_env);
                steps += out.stats.steps;
                let kind = classify(&out);
                let a1 = strip_staging(&tree_bytes(&out.world, HOST, ROOT_A));
                let b1 = strip_staging(&tree_bytes(&out.world, HOST, ROOT_B));
                let rec = RunRec {
                    conflict_copies_before: a0.keys().chain(b0.keys()).filter(|p| p.contains(".conflict-")).count(),
                    a0,
                    b0,
                    a1,
                    b1,
                    kind,
                    plan: plan_line(&out),
                    stderr: out.procs[0].err_str(),
                    stdout: out.procs[0].out_str(),
                    faulted: faulted && out.stats.injected_errors > 0,
                    short_writes: out.stats.short_writes,
                };
                shape = fnv(&[shape, out.shape, kind as u64]);
                per_run(&out.world, &rec, &out, &l)?;
                if kind == RunKind::Completed {
                    l = rec
                        .a1
                        .iter()
                        .filter(|(p, c)| rec.b1.get(*p) == Some(*c))
                        .map(|(p, c)| (p.clone(), c.clone()))
                        .collect();
                }
                runs.push(rec);
                w = out.world;
            }
        }
    }
    Ok(HistRun {
        runs,
        steps,
        sim_ns: w.clock_ns - t_start,
        final_world: w,
        shape,
        user_steps_applied: applied,
    })
}

fn note_probes(rep: &mut RunReport, hr: &HistRun) {
    for r in &hr.runs {
        if r.kind == RunKind::Aborted {
            rep.probe("aborted_run", 1);
        }
        if r.faulted {
            rep.fault("injected_io_error", 1);
        }
        if r.short_writes > 0 {
            rep.fault("short_write", r.short_writes);
        }
        if let Some((_, c)) = r.plan {
            if c > 0 {
                rep.probe("conflict_run", 1);
            }
        }
        if r.a1.keys().any(|p| p.contains(".conflict-")) {
            rep.probe("conflict_copy_present", 1);
        }
        if r.a0.len() > r.a1.len() || r.b0.len() > r.b1.len() {
            rep.probe("delete_propagated", 1);
        }
        if r.stderr.contains("SAFE no-base mode") {
            rep.probe("no_base_run", 1);
        }
    }
}

/// f conflicts with the same losing content L three times; after the first time the copy of L is
/// edited (O1), after the second time the copy is set back to O1 and the displaced copy edited
/// (O2). The third conflict must keep L, O1 and O2.
pub fn repeated_conflict_history(r: &mut Rng) -> History {
    let mut h = gen_history(r, 3, false);
    h.allow_clash = false;
    h.ncontents = 8;
    h.npaths = h.npaths.max(2);
    // the loser must be the content with the smallest hash
    let mut ids: Vec<u32> = (0..8).collect();
    ids.sort_by_key(|c| b3(&content_of(*c, &h)));
    let (l, rest) = (ids[0], &ids[1..]);
    let (w1, w2, w3, o1, o2) = (rest[0], rest[1], rest[2], rest[3], rest[4]);
    let f = PathSel::Base(0);
    let wr = |side: u8, path: &PathSel, content: u32| Step::Write { side, path: path.clone(), content };
    h.steps = vec![
        wr(0, &f, l),
        wr(1, &f, w1),
        Step::Bisync,
        wr(0, &PathSel::Conflict(0), o1),
        Step::Bisync,
        wr(0, &f, l),
        wr(1, &f, w2),
        Step::Bisync,
        wr(0, &PathSel::Conflict(0), o1),
        wr(0, &PathSel::Conflict(1), o2),
        Step::Bisync,
        wr(0, &f, l),
        wr(1, &f, w3),
        Step::Bisync,
        Step::Bisync,
    ];
    h
}

pub struct C02;

impl Check for C02 {
    type Sc = Sc;
    fn id(&self) -> &'static str {
        "C02"
    }
    fn level(&self) -> &'static str {
        "exploration"
    }
    fn rule(&self) -> String {
        "one run = one seeded history of 3..14 steps over {write(side,path,content), delete(side,path), bisync, bisync-with-one-injected-I/O-error} on 2..6 hostile-named paths and 3..8 reused contents, where later steps also edit conflict-copies produced by earlier runs; each bisync is the real CLI in the simulator (seeded readdir order, copy chunking, clock jumps). Non-trivial = at least two bisync runs of which one planned an action; distinct = hash of the per-run op-trace shapes and outcomes".into()
    }
    fn assumptions(&self) -> Vec<String> {
        vec![
            "regular files only; names ending .copia-tmp reserved; single bisync process at a time".into(),
            "SimFs models POSIX rename/unlink/open semantics; hostname stub".into(),
            "a version counts as surviving only at its path or a `<path>.conflict-*` sibling".into(),
        ]
    }
    fn components(&self) -> Value {
        json!({"real": ["copia bisync (bidir.rs, reconcile.rs, archive.rs, meta.rs, transfer.rs) via run_cli"], "simulated": ["file system", "HOME/HOSTNAME env", "hostname program", "clock", "user edits between runs"]})
    }
    fn runs(&self, tier: Tier) -> u64 {
        match tier {
            Tier::Quick => 60_000,
            Tier::Thorough => 3_000_000,
        }
    }
    fn generate(&self, seed: u64, _tier: Tier) -> Sc {
        let mut r = Rng::new(seed);
        let with_faults = r.below(4) == 0;
        let mut hist = gen_history(&mut r, 14, with_faults);
        // one history in 150: the SAME conflict three times over, the conflict-copies edited in
        // between — so that keeping the displaced copies has to go two names deep
        if r.below(150) == 0 {
            hist = repeated_conflict_history(&mut r);
        }
        Sc {
            hist,
            cfg_seed: r.next_u64(),
            with_faults,
        }
    }
    fn execute(&self, sc: &Sc) -> RunReport {
        let mut rep = RunReport::default();
        let mut viol: Option<(String, String, String)> = None;
        let res = exec_history(&sc.hist, sc.cfg_seed, false, 0, |_w, rec, out, l| {
            if rec.kind == RunKind::Crashed {
                return Err((
                    "c02.no_crash".into(),
                    "bisync-panicked".into(),
                    format!("exit={:?}", out.procs[0].exit),
                ));
            }
            if std::env::var("SIMCHECK_DEBUG").is_ok() {
                let show = |t: &Tree| t.iter().map(|(k, v)| format!("{k:?}={}", short_hex(&b3(v)))).collect::<Vec<_>>().join(", ");
                eprintln!("RUN kind={:?} plan={:?}\n  A0: {}\n  B0: {}\n  L : {}\n  A1: {}\n  B1: {}\n  stdout: {}", rec.kind, rec.plan, show(&rec.a0), show(&rec.b0), show(l), show(&rec.a1), show(&rec.b1), rec.stdout.trim());
            }
            if let Some((class, detail)) = lost_version(&rec.a0, &rec.b0, &rec.a1, &rec.b1, l, rec.kind) {
                return Err(("c02.version_conservation".into(), class, detail));
            }
            Ok(())
        });
        match res {
            Ok(hr) => {
                note_probes(&mut rep, &hr);
                rep.steps = hr.steps;
                rep.sim_ns = hr.sim_ns;
                rep.execs = hr.runs.len() as u64;
                rep.shape = hr.shape;
                rep.nontrivial = hr.runs.len() >= 2 && hr.runs.iter().any(|r| r.plan.map_or(false, |p| p.0 > 0));
                rep.end_state = tree_hash(&tree_bytes(&hr.final_world, HOST, ROOT_A));
            }
            Err(v) => viol = Some(v),
        }
        if let Some((o, c, d)) = viol {
            rep.fail(&o, &c, d);
            rep.execs = 1;
        }
        rep
    }
    fn shrink(&self, sc: &Sc) -> Vec<Sc> {
        shrink_history(&sc.hist)
            .into_iter()
            .map(|h| Sc { hist: h, ..sc.clone() })
            .collect()
    }
    fn expected_probes(&self) -> Vec<&'static str> {
        vec!["conflict_run", "conflict_copy_present", "delete_propagated", "aborted_run", "no_base_run"]
    }
}

// ------------------------------------------------------------------------------------
// C06
// ------------------------------------------------------------------------------------

pub struct C06;

fn c06_after_run_inner(
    h: &History,
    cfg_seed: u64,
    w: &World,
    rec: &RunRec,
    swap: bool,
    rep_execs: &mut u64,
    l: &Tree,
) -> Result<(), (String, String, String)> {
    if rec.kind != RunKind::Completed {
        return Ok(());
    }
    // (1) both sides identical
    if rec.a1 != rec.b1 {
        let diff: Vec<&String> = rec
            .a1
            .keys()
            .chain(rec.b1.keys())
            .filter(|p| rec.a1.get(*p) != rec.b1.get(*p))
            .collect();
        return Err((
            "c06.converged".into(),
            "sides-differ-after-completed-run".into(),
            format!("paths differing: {:?}", &diff[..diff.len().min(4)]),
        ));
    }
    // (2) archive equals exactly the tree
    let (ra, rb) = if swap { (ROOT_B, ROOT_A) } else { (ROOT_A, ROOT_B) };
    match archive_entries(w, ra, rb) {
        None => {
            return Err((
                "c06.recorded".into(),
                "archive-missing-or-unparsable".into(),
                format!("{}", archive_file(ra, rb)),
            ))
        }
        Some(e) => {
            let want: std::collections::BTreeMap<String, [u8; 32]> =
                rec.a1.iter().map(|(p, c)| (p.clone(), b3(c))).collect();
            if e != want {
                let extra: Vec<&String> = e.keys().filter(|k| !want.contains_key(*k)).collect();
                let missing: Vec<&String> = want.keys().filter(|k| !e.contains_key(*k)).collect();
                let wrong: Vec<&String> = want.keys().filter(|k| e.get(*k).map_or(false, |v| v != &want[*k])).collect();
                let class = if !extra.is_empty() && missing.is_empty() && wrong.is_empty() {
                    "archive-keeps-entries-for-paths-absent-on-both-sides"
                } else {
                    "archive-differs-from-tree"
                };
                return Err((
                    "c06.recorded".into(),
                    class.into(),
                    format!("extra={:?} missing={:?} wrong={:?}", &extra[..extra.len().min(3)], &missing[..missing.len().min(3)], &wrong[..wrong.len().min(3)]),
                ));
            }
        }
    }
    // (3) an immediate second run plans nothing and changes nothing
    let out2 = run_bisync(w.clone(), run_cfg(cfg_seed ^ 0x2222), ra, rb, &[], h.hostname_env);
    *rep_execs += 1;
    let k2 = classify(&out2);
    let plan2 = plan_line(&out2);
    if k2 != RunKind::Completed || out2.procs[0].exit != ExitKind::Code(0) || plan2.map(|p| p.0) != Some(0) {
        return Err((
            "c06.idempotent".into(),
            "second-run-plans-actions".into(),
            format!("exit={:?} plan={:?} stderr={}", out2.procs[0].exit, plan2, out2.procs[0].err_str().lines().take(3).collect::<Vec<_>>().join(" | ")),
        ));
    }
    let muts = mutating_in_roots(&out2.trace, 0, &[ROOT_A, ROOT_B]);
    if !muts.is_empty() {
        return Err((
            "c06.idempotent".into(),
            "second-run-mutates-tree".into(),
            format!("{:?}", &muts[..muts.len().min(3)]),
        ));
    }
    if strip_staging(&tree_bytes(&out2.world, HOST, ROOT_A)) != rec.a1
        || strip_staging(&tree_bytes(&out2.world, HOST, ROOT_B)) != rec.b1
    {
        return Err(("c06.idempotent".into(), "second-run-changes-bytes".into(), String::new()));
    }
    // (5) divergent edit resolution: path holds greater blake3, loser at conflict name
    for (p, ca) in &rec.a0 {
        if let Some(cb) = rec.b0.get(p) {
            // a divergent edit: the sides differ and both differ from what the last
            // completed run left at this path
            if ca != cb && l.get(p) != Some(ca) && l.get(p) != Some(cb) {
                let (win, lose) = if b3(ca) >= b3(cb) { (ca, cb) } else { (cb, ca) };
                let lname = format!("{p}.conflict-{}-{}", host_id(h.hostname_env), short_hex(&b3(lose)));
                for (side, t) in [("A", &rec.a1), ("B", &rec.b1)] {
                    if t.get(p) != Some(win) || t.get(&lname) != Some(lose) {
                        return Err((
                            "c06.conflict_resolution".into(),
                            "divergent-edit-not-resolved-as-documented".into(),
                            format!("side {side} path {p:?}: want winner {} at path and loser {} at {lname:?}; got path={:?} loser-name={:?}",
                                short_hex(&b3(win)), short_hex(&b3(lose)),
                                t.get(p).map(|x| short_hex(&b3(x))), t.get(&lname).map(|x| short_hex(&b3(x)))),
                        ));
                    }
                }
            }
        }
    }
    Ok(())
}

/// Root-cause classifier for the known conflict-copy defect (see known_findings.json):
/// in this run a divergent edit's conflict-copy name already existed (on a side or in the
/// last common state), i.e. it had its own planned action when apply() wrote to it.
fn conflict_name_collision(h: &History, rec: &RunRec, l: &Tree) -> bool {
    for (p, ca) in &rec.a0 {
        if let Some(cb) = rec.b0.get(p) {
            if ca != cb && l.get(p) != Some(ca) && l.get(p) != Some(cb) {
                let lose = if b3(ca) >= b3(cb) { cb } else { ca };
                let lname = format!("{p}.conflict-{}-{}", host_id(h.hostname_env), short_hex(&b3(lose)));
                if rec.a0.contains_key(&lname) || rec.b0.contains_key(&lname) || l.contains_key(&lname) {
                    return true;
                }
            }
        }
    }
    false
}

fn c06_after_run(
    h: &History,
    cfg_seed: u64,
    w: &World,
    rec: &RunRec,
    swap: bool,
    rep_execs: &mut u64,
    l: &Tree,
) -> Result<(), (String, String, String)> {
    match c06_after_run_inner(h, cfg_seed, w, rec, swap, rep_execs, l) {
        Err((o, _c, d)) if conflict_name_collision(h, rec, l) => Err((
            o,
            "conflict-copy-name-had-own-planned-action".into(),
            d,
        )),
        other => other,
    }
}

impl Check for C06 {
    type Sc = Sc;
    fn id(&self) -> &'static str {
        "C06"
    }
    fn level(&self) -> &'static str {
        "exploration"
    }
    fn rule(&self) -> String {
        "histories as in C02 without injected errors (a quarter of them with one short write in some runs; edits carry current, backdated, start-of-world and future mtimes); after every completed run: A==B, archive entries == fingerprint map of the tree, an immediate second run plans 0 actions and issues no mutating op under A or B; the whole history is re-executed with shifted clocks and with the roots named (B,A) and the bytes at every path after every run must equal the original. Non-trivial = a completed run that planned >= 1 action; distinct = hash of per-run trace shapes".into()
    }
    fn assumptions(&self) -> Vec<String> {
        vec!["clash-free trees (no file-vs-directory conflicts between the sides)".into(), "as C02".into()]
    }
    fn components(&self) -> Value {
        C02.components()
    }
    fn runs(&self, tier: Tier) -> u64 {
        match tier {
            Tier::Quick => 12_000,
            Tier::Thorough => 800_000,
        }
    }
    fn generate(&self, seed: u64, _tier: Tier) -> Sc {
        let mut r = Rng::new(seed);
        let mut hist = gen_history(&mut r, 12, false);
        hist.allow_clash = false;
        // a quarter of the histories: some runs meet one short write (legal write(2) behaviour,
        // not an error: every clause applies unchanged)
        if r.below(4) == 0 {
            for st in &mut hist.steps {
                if matches!(st, Step::Bisync) && r.below(3) == 0 {
                    *st = Step::BisyncFault { kind: 4, nth: r.range(1, 8) as u32 };
                }
            }
        } else if r.below(4) == 0 {
            // ... or one failing unlink: the run may stop with an error, but if it reports
            // completion (exit 0) every clause still has to hold
            for st in &mut hist.steps {
                if matches!(st, Step::Bisync) && r.below(3) == 0 {
                    *st = Step::BisyncFault { kind: 6, nth: r.range(1, 3) as u32 };
                }
            }
        }
        Sc {
            hist,
            cfg_seed: r.next_u64(),
            with_faults: false,
        }
    }
    fn execute(&self, sc: &Sc) -> RunReport {
        let mut rep = RunReport::default();
        let h = &sc.hist;
        let mut execs = 0u64;
        let base = exec_history(h, sc.cfg_seed, false, 0, |w, rec, out, l| {
            if rec.kind == RunKind::Crashed {
                return Err(("c06.no_crash".into(), "bisync-panicked".into(), format!("{:?}", out.procs[0].exit)));
            }
            c06_after_run(h, sc.cfg_seed, w, rec, false, &mut execs, l)
        });
        let hr = match base {
            Ok(hr) => hr,
            Err((o, c, d)) => {
                rep.fail(&o, &c, d);
                rep.execs = execs + 1;
                return rep;
            }
        };
        note_probes(&mut rep, &hr);
        rep.steps = hr.steps;
        rep.sim_ns = hr.sim_ns;
        rep.shape = hr.shape;
        rep.nontrivial = hr.runs.iter().any(|r| r.kind == RunKind::Completed && r.plan.map_or(false, |p| p.0 > 0));
        // (4) metamorphic: clock shift, and roots swapped
        for (swap, skew, class) in [
            (false, 987_654_321_123u64, "outcome-depends-on-mtimes"),
            (true, 0u64, "outcome-depends-on-root-order"),
        ] {
            let alt = exec_history(h, sc.cfg_seed ^ 0x77, swap, skew, |_, _, _, _| Ok(()));
            match alt {
                Ok(ar) => {
                    execs += ar.runs.len() as u64;
                    for (i, (x, y)) in hr.runs.iter().zip(ar.runs.iter()).enumerate() {
                        if x.kind != RunKind::Completed || y.kind != RunKind::Completed {
                            if x.kind != y.kind {
                                rep.fail("c06.metamorphic", class, format!("run {i}: {:?} vs {:?}", x.kind, y.kind));
                            }
                            break;
                        }
                        if x.a1 != y.a1 || x.b1 != y.b1 {
                            let d: Vec<&String> = x.a1.keys().chain(y.a1.keys()).filter(|p| x.a1.get(*p) != y.a1.get(*p)).collect();
                            rep.fail("c06.metamorphic", class, format!("run {i}: A differs at {:?}", &d[..d.len().min(3)]));
                            break;
                        }
                    }
                    rep.probe(if swap { "swapped_order_compared" } else { "shifted_clock_compared" }, 1);
                }
                Err((o, c, d)) => rep.fail(&o, &c, d),
            }
        }
        rep.execs = execs + hr.runs.len() as u64;
        rep.end_state = tree_hash(&tree_bytes(&hr.final_world, HOST, ROOT_A));
        rep
    }
    fn shrink(&self, sc: &Sc) -> Vec<Sc> {
        shrink_history(&sc.hist)
            .into_iter()
            .map(|h| Sc { hist: h, ..sc.clone() })
            .collect()
    }
    fn expected_probes(&self) -> Vec<&'static str> {
        vec!["conflict_run", "delete_propagated", "swapped_order_compared", "shifted_clock_compared"]
    }
}
