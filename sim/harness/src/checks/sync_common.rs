//! Shared machinery for the one-way recursive sync properties (C04, C09, C14, C15):
//! tree generator, independent reference of the plan (quick check, excludes, delete set),
//! runner for the three directions.

use crate::common::*;
use copia_simworld::kernel::*;
use copia_simworld::rng::Rng;
use serde::{Deserialize, Serialize};
use std::collections::{BTreeMap, BTreeSet};

pub const LOCAL: &str = "local";
pub const REMOTE: &str = "remote";
pub const SRC_ROOT: &str = "/data/src tree";
pub const DST_ROOT: &str = "/data/dst'tree";

#[derive(Clone, Copy, Debug, Serialize, Deserialize, PartialEq)]
pub enum DstState {
    Absent,
    SameSizeMtime,
    /// same size and whole-second mtime but different bytes and sub-second part: the quick
    /// check must leave it exactly as it is
    SameMetaDiffBytes,
    DiffSize,
    DiffMtime,
    /// a directory sits where the file must land (input-induced failure)
    DirInTheWay,
}

#[derive(Clone, Debug, Serialize, Deserialize)]
pub struct FileSpec {
    pub path: String,
    pub size: u32,
    pub tag: u32,
    pub mtime_s: u64,
    pub mtime_ns: u32,
    pub dst: DstState,
}

#[derive(Clone, Debug, Serialize, Deserialize)]
pub struct SyncSc {
    pub seed: u64,
    /// 0 local->local, 1 push, 2 pull
    pub dir: u8,
    pub files: Vec<FileSpec>,
    /// destination-only files: (path, size)
    pub extra_dst: Vec<(String, u32)>,
    pub delete: bool,
    pub excludes: Vec<String>,
    pub jobs: u32,
    pub verbose: bool,
    pub policy: super::hub_common::PolicySpec,
    pub pipe_cap: u32,
    pub copy_chunk: u32,
    pub short_read_pct: u32,
    pub readdir_shuffle: bool,
    pub dst_exists: bool,
    /// fault batch: make the nth op of this kind (index into FAULT_KINDS) of the copia process
    /// fail with errno (EIO / ENOSPC / EACCES by nth % 3); None = fault-free
    #[serde(default)]
    pub inject: Option<(u8, u32)>,
    /// the REMOTE root is named on the command line through a symlink to the directory
    /// (`current -> releases/v1`): only the spelling of the root changes, the tree does not
    #[serde(default)]
    pub root_link: bool,
    /// fault batch: every ssh child of the sync is killed (as by a signal: OOM killer, `pkill ssh`)
    /// immediately before its nth operation
    #[serde(default)]
    pub kill_child: Option<u32>,
    /// the first two files have identical bytes in the source (different mtimes) and are two
    /// hard-linked names of ONE inode in the destination (as `cp -al` / rsnapshot leave them),
    /// holding those very bytes with an older mtime
    #[serde(default)]
    pub hardlink_pair: bool,
    /// the remote login shell's time zone (POSIX TZ, e.g. "EST5", "JST-9"; empty = UTC)
    #[serde(default)]
    pub remote_tz: String,
}

pub const REMOTE_LINK: &str = "/data/current";

pub const FAULT_KINDS: [OpKind; 7] = [OpKind::Write, OpKind::Rename, OpKind::Open, OpKind::PipeWrite, OpKind::Spawn, OpKind::Readdir, OpKind::Unlink];

pub const NAME_PARTS: &[&str] = &[
    "a", "b.txt", "sp ace", "q'uo", "d\"q", "back\\sl", "$dol", "st*r", "qu?", "[br]", "tab\there", "-dash", ".hid", "ünï", "e", "x.tmp", "target",
    "new\nline",
    // siblings of directory names that sort differently as strings and as paths
    // (a character below '/' after a name that is also a directory: "a/…" vs "a.b", "a b", "a-b")
    "a.b", "a b", "a-b", "e!", "target.old",
    // a backslash followed by something $'…' would read as an escape sequence, a trailing
    // backslash, a backslash before a quote
    "C:\\temp\\new", "o\\101x\\x41", "tr\\", "b\\'q", "u\\u00e9\\cA",
];

pub fn body(tag: u32, size: u32) -> Vec<u8> {
    let mut v = format!("<file {tag}:{size}>").into_bytes();
    v.truncate(size as usize);
    let fill = b'a' + (tag % 26) as u8;
    while v.len() < size as usize {
        v.push(fill);
    }
    v
}

pub fn gen_paths(r: &mut Rng, n: usize, allow_newline: bool) -> Vec<String> {
    let mut out: BTreeSet<String> = BTreeSet::new();
    let mut guard = 0;
    while out.len() < n && guard < 200 {
        guard += 1;
        let depth = match r.below(6) {
            0 | 1 | 2 => 1,
            3 | 4 => 2,
            _ => 3,
        };
        let mut comps = Vec::new();
        for _ in 0..depth {
            let mut c = (*r.pick(NAME_PARTS)).to_string();
            if !allow_newline && c.contains('\n') {
                c = "nl".into();
            }
            comps.push(c);
        }
        let p = comps.join("/");
        // no path may be a prefix-directory of another (file vs dir clash inside one tree)
        if out.iter().any(|q| q.starts_with(&format!("{p}/")) || p.starts_with(&format!("{q}/"))) {
            continue;
        }
        out.insert(p);
    }
    out.into_iter().collect()
}

pub fn gen_excludes(r: &mut Rng, paths: &[String]) -> Vec<String> {
    let mut ex = Vec::new();
    for _ in 0..r.urange(0, 3) {
        let pat = match r.below(9) {
            0 => "*.tmp".to_string(),
            1 => "target".to_string(),
            2 => "target/".to_string(),
            3 => format!("*{}", r.pick(NAME_PARTS).chars().next().unwrap_or('a')),
            4 => {
                // a whole-path pattern derived from an existing path
                let p = r.pick(paths).clone();
                if p.contains('/') {
                    let mut cs: Vec<char> = p.chars().collect();
                    cs[0] = '?';
                    cs.into_iter().collect()
                } else {
                    format!("{p}/x")
                }
            }
            5 => r.pick(paths).split('/').next().unwrap_or("a").to_string(),
            6 => String::new(),
            7 => "?".to_string(),
            _ => {
                let p = r.pick(paths).clone();
                let cut = p.char_indices().nth(1).map_or(p.len(), |x| x.0);
                format!("{}*", &p[..cut])
            }
        };
        ex.push(pat);
    }
    ex
}

pub fn gen_sync(r: &mut Rng, allow_fail_inputs: bool) -> SyncSc {
    let dir = r.below(3) as u8;
    let n = r.urange(0, 7);
    let allow_nl = r.below(4) == 0;
    let mut paths = gen_paths(r, n + 3, allow_nl);
    r.shuffle(&mut paths);
    let base_t = 1_600_000_000u64;
    let mut files = Vec::new();
    for p in paths.iter().take(n) {
        let size = match r.below(12) {
            0 => 0,
            1 => 300_000,
            2 => 70_000,
            3 => 600_000,
            _ => 1 + r.below(400) as u32,
        };
        let mtime_s = match r.below(10) {
            0 => 0,
            1 => 1,
            2 => 15_032_385_535,
            3 => 1_700_000_000 + r.below(100_000),
            _ => base_t + r.below(50_000_000),
        };
        let mtime_ns = *r.pick(&[0u32, 0, 1, 500_000_000, 999_999_999, 123_456_789]);
        let dst = match r.below(12) {
            0..=3 => DstState::Absent,
            4 | 5 => DstState::SameSizeMtime,
            6 => DstState::SameMetaDiffBytes,
            7 | 8 => DstState::DiffSize,
            9 | 10 => DstState::DiffMtime,
            _ => {
                if allow_fail_inputs && r.below(3) == 0 {
                    DstState::DirInTheWay
                } else {
                    DstState::Absent
                }
            }
        };
        files.push(FileSpec { path: p.clone(), size, tag: r.below(1000) as u32, mtime_s, mtime_ns, dst });
    }
    let mut extra_dst = Vec::new();
    for p in paths.iter().skip(n).take(r.urange(0, 3)) {
        extra_dst.push((p.clone(), 1 + r.below(50) as u32));
    }
    let excludes = if r.below(3) == 0 { gen_excludes(r, &paths) } else { Vec::new() };
    let big = files.iter().any(|f| f.size > 100_000);
    let root_link = dir != 0 && r.below(6) == 0;
    let mut sc = SyncSc {
        seed: r.next_u64(),
        dir,
        files,
        extra_dst,
        delete: r.below(2) == 0,
        excludes,
        jobs: *r.pick(&[1u32, 2, 3, 8]),
        verbose: r.below(4) == 0,
        policy: super::hub_common::PolicySpec::random(r),
        pipe_cap: if big { *r.pick(&[65536u32, 1 << 20]) } else { *r.pick(&[64u32, 4096, 65536]) },
        copy_chunk: *r.pick(&[4096u32, 65536, 131_072]),
        short_read_pct: *r.pick(&[0u32, 20]),
        readdir_shuffle: r.coin(),
        dst_exists: r.below(8) != 0,
        inject: None,
        root_link: false,
        kill_child: None,
        hardlink_pair: false,
        remote_tz: (*r.pick(&["", "", "EST5", "JST-9", "UTC0"])).to_string(),
    };
    if sc.files.len() >= 2 && r.below(10) == 0 {
        sc.hardlink_pair = true;
        let (tag, size) = (sc.files[0].tag, sc.files[0].size.clamp(1, 5000));
        sc.files[0].size = size;
        sc.files[1].tag = tag;
        sc.files[1].size = size;
        sc.files[0].mtime_s = 1_650_000_000;
        sc.files[1].mtime_s = 1_660_000_000;
        sc.files[0].dst = DstState::DiffMtime;
        sc.files[1].dst = DstState::DiffMtime;
        sc.dst_exists = true;
    }
    sc.root_link = root_link;
    sc
}

pub fn src_host(sc: &SyncSc) -> &'static str {
    if sc.dir == 2 {
        REMOTE
    } else {
        LOCAL
    }
}
pub fn dst_host(sc: &SyncSc) -> &'static str {
    if sc.dir == 1 {
        REMOTE
    } else {
        LOCAL
    }
}

pub fn ns(s: u64, n: u32) -> u64 {
    s.saturating_mul(1_000_000_000).saturating_add(u64::from(n))
}

pub fn build_world(sc: &SyncSc) -> World {
    let mut w = World::new();
    let t = w.clock_ns;
    for h in [LOCAL, REMOTE] {
        w.host(h).mkdir_p("/home/u", t);
        w.host(h).mkdir_p(crate::stubs::REMOTE_HOME, t);
    }
    let (sh, dh) = (src_host(sc), dst_host(sc));
    w.host(sh).mkdir_p(SRC_ROOT, t);
    if sc.dst_exists {
        w.host(dh).mkdir_p(DST_ROOT, t);
    }
    for f in &sc.files {
        let sp = format!("{SRC_ROOT}/{}", f.path);
        w.host(sh).put_file(&sp, &body(f.tag, f.size), ns(f.mtime_s, f.mtime_ns));
        if !sc.dst_exists {
            continue;
        }
        let dp = format!("{DST_ROOT}/{}", f.path);
        match f.dst {
            DstState::Absent => {}
            DstState::SameSizeMtime => w.host(dh).put_file(&dp, &body(f.tag, f.size), ns(f.mtime_s, f.mtime_ns)),
            DstState::SameMetaDiffBytes => {
                w.host(dh).put_file(&dp, &body(f.tag + 1, f.size), ns(f.mtime_s, (f.mtime_ns + 7) % 1_000_000_000))
            }
            DstState::DiffSize => w.host(dh).put_file(&dp, &body(f.tag, f.size + 3), ns(f.mtime_s, f.mtime_ns)),
            DstState::DiffMtime => w.host(dh).put_file(&dp, &body(f.tag + 2, f.size), ns(f.mtime_s + 1 + u64::from(f.tag % 5), 0)),
            DstState::DirInTheWay => {
                w.host(dh).mkdir_p(&dp, t);
                w.host(dh).put_file(&format!("{dp}/occupant"), b"occupant", t);
            }
        }
    }
    if sc.dst_exists {
        for (p, sz) in &sc.extra_dst {
            w.host(dh).put_file(&format!("{DST_ROOT}/{p}"), &body(9000, *sz), t - 3_000_000_000);
        }
    }
    if sc.hardlink_pair && sc.files.len() >= 2 && sc.dst_exists && sc.files[..2].iter().all(|f| f.dst == DstState::DiffMtime) {
        let (f0, f1) = (&sc.files[0], &sc.files[1]);
        let (d0, d1) = (format!("{DST_ROOT}/{}", f0.path), format!("{DST_ROOT}/{}", f1.path));
        w.host(dh).remove_file(&d0);
        w.host(dh).remove_file(&d1);
        w.host(dh).put_file(&d0, &body(f0.tag, f0.size), ns(1_600_000_000, 0));
        if let Some(i) = d1.rfind('/') {
            w.host(dh).mkdir_p(&d1[..i], t);
        }
        let _ = w.host(dh).link("/", &d0, &d1, t);
    }
    if link_in_use(sc) {
        let target = if sc.dir == 1 { DST_ROOT } else { SRC_ROOT };
        let _ = w.host(REMOTE).symlink("/", target, REMOTE_LINK, t);
    }
    w
}

/// Is the remote root named through the symlink in this scenario?
pub fn link_in_use(sc: &SyncSc) -> bool {
    sc.root_link && (sc.dir == 2 || (sc.dir == 1 && sc.dst_exists))
}

pub fn argv(sc: &SyncSc, dry_run: bool) -> Vec<String> {
    let link = link_in_use(sc);
    let src = if sc.dir == 2 { format!("{REMOTE}:{}", if link { REMOTE_LINK } else { SRC_ROOT }) } else { SRC_ROOT.to_string() };
    let dst = if sc.dir == 1 { format!("{REMOTE}:{}", if link { REMOTE_LINK } else { DST_ROOT }) } else { DST_ROOT.to_string() };
    let mut a = sv(&["copia", "sync", "-r", &src, &dst, "--jobs", &sc.jobs.to_string()]);
    if sc.delete {
        a.push("--delete".into());
    }
    for e in &sc.excludes {
        a.push(format!("--exclude={e}"));
    }
    if sc.verbose {
        a.push("--verbose".into());
    }
    if dry_run {
        a.push("--dry-run".into());
    }
    a
}

pub fn run_cfg(sc: &SyncSc, salt: u64) -> RunCfg {
    let mut cfg = RunCfg::default();
    cfg.seed = sc.seed ^ salt;
    cfg.policy = sc.policy.to_policy();
    cfg.pipe_cap = sc.pipe_cap.max(1) as usize;
    cfg.copy_chunk = sc.copy_chunk.max(1) as usize;
    cfg.short_read_pct = sc.short_read_pct;
    cfg.readdir_seed = if sc.readdir_shuffle { Some(sc.seed ^ 0x5EED) } else { None };
    cfg.op_budget = 400_000;
    if let Some((k, nth)) = sc.inject {
        let errno = [copia_simworld::fs::EIO, copia_simworld::fs::ENOSPC, copia_simworld::fs::EACCES][nth as usize % 3];
        cfg.faults.push(Fault::FailOp { target: ProcSel::Role("sync".into()), nth, kind: FAULT_KINDS[k as usize % FAULT_KINDS.len()], errno });
    }
    if let Some(nth) = sc.kill_child {
        cfg.faults.push(Fault::KillAtOp { target: ProcSel::Role("sync>ssh".into()), nth, class: OpClass::Any });
    }
    cfg
}

pub fn run_sync(world: World, sc: &SyncSc, cfg: RunCfg, dry_run: bool) -> Outcome {
    let mut env = env_of(&[("HOME", "/home/u")]);
    if !sc.remote_tz.is_empty() {
        env.insert("SIM_REMOTE_TZ".into(), sc.remote_tz.clone());
    }
    run_one(world, cfg, "sync", LOCAL, &argv(sc, dry_run), env)
}

// ---- independent reference of the statement ---------------------------------------------

/// `*` any run of characters, `?` exactly one, everything else literal.
pub fn glob(pat: &[char], text: &[char]) -> bool {
    match pat.first() {
        None => text.is_empty(),
        Some('*') => (0..=text.len()).any(|k| glob(&pat[1..], &text[k..])),
        Some('?') => !text.is_empty() && glob(&pat[1..], &text[1..]),
        Some(c) => text.first() == Some(c) && glob(&pat[1..], &text[1..]),
    }
}

pub fn excluded(rel: &str, excludes: &[String]) -> bool {
    for pat in excludes {
        let pat = pat.trim_end_matches('/');
        if pat.is_empty() {
            continue;
        }
        let pc: Vec<char> = pat.chars().collect();
        if pat.contains('/') {
            if glob(&pc, &rel.chars().collect::<Vec<_>>()) {
                return true;
            }
        } else if rel.split('/').any(|comp| glob(&pc, &comp.chars().collect::<Vec<_>>())) {
            return true;
        }
    }
    false
}

pub type Snap = BTreeMap<String, (Vec<u8>, u64)>;

pub struct RefPlan {
    pub transfer: BTreeSet<String>,
    pub skipped: BTreeSet<String>,
    pub delete: BTreeSet<String>,
}

pub fn ref_plan(src: &Snap, dst: &Snap, excludes: &[String], delete: bool) -> RefPlan {
    let mut p = RefPlan { transfer: BTreeSet::new(), skipped: BTreeSet::new(), delete: BTreeSet::new() };
    for (path, (sb, sm)) in src {
        if excluded(path, excludes) {
            continue;
        }
        let need = match dst.get(path) {
            None => true,
            Some((db, dm)) => db.len() != sb.len() || dm / 1_000_000_000 != sm / 1_000_000_000,
        };
        if need {
            p.transfer.insert(path.clone());
        } else {
            p.skipped.insert(path.clone());
        }
    }
    if delete {
        for path in dst.keys() {
            if !src.contains_key(path) && !excluded(path, excludes) {
                p.delete.insert(path.clone());
            }
        }
    }
    p
}

pub fn snap(w: &World, host: &str, root: &str) -> Snap {
    if w.hosts.contains_key(host) {
        w.fs(host).tree(root)
    } else {
        Snap::new()
    }
}

pub fn mutating_ops_under(trace: &[OpRec], host: &str, root: &str) -> Vec<String> {
    trace
        .iter()
        .filter(|r| r.host == host && r.mutating && (under(&r.path, root) || under(&r.path2, root)))
        .filter(|r| r.effect || matches!(r.kind, OpKind::Unlink | OpKind::Rename | OpKind::Write | OpKind::SetMtime))
        .map(|r| format!("{:?} {} {}", r.kind, r.path, r.path2))
        .collect()
}

pub fn under(path: &str, root: &str) -> bool {
    path == root || (path.starts_with(root) && path[root.len()..].starts_with('/'))
}

pub fn shrink_sync(sc: &SyncSc) -> Vec<SyncSc> {
    let mut out = Vec::new();
    for i in 0..sc.files.len() {
        let mut s = sc.clone();
        s.files.remove(i);
        out.push(s);
    }
    for i in 0..sc.extra_dst.len() {
        let mut s = sc.clone();
        s.extra_dst.remove(i);
        out.push(s);
    }
    for i in 0..sc.excludes.len() {
        let mut s = sc.clone();
        s.excludes.remove(i);
        out.push(s);
    }
    for i in 0..sc.files.len() {
        if sc.files[i].size > 64 {
            let mut s = sc.clone();
            s.files[i].size = 10;
            out.push(s);
        }
        if sc.files[i].path.contains('/') {
            let mut s = sc.clone();
            s.files[i].path = sc.files[i].path.rsplit('/').next().unwrap_or("f").to_string();
            if !s.files.iter().enumerate().any(|(j, f)| j != i && f.path == s.files[i].path) {
                out.push(s);
            }
        }
    }
    if sc.jobs != 1 {
        let mut s = sc.clone();
        s.jobs = 1;
        out.push(s);
    }
    if sc.delete {
        let mut s = sc.clone();
        s.delete = false;
        out.push(s);
    }
    if sc.verbose {
        let mut s = sc.clone();
        s.verbose = false;
        out.push(s);
    }
    if sc.policy.kind != 3 {
        let mut s = sc.clone();
        s.policy = super::hub_common::PolicySpec { kind: 3, a: 0, b: 0 };
        out.push(s);
    }
    if sc.short_read_pct > 0 {
        let mut s = sc.clone();
        s.short_read_pct = 0;
        out.push(s);
    }
    if sc.readdir_shuffle {
        let mut s = sc.clone();
        s.readdir_shuffle = false;
        out.push(s);
    }
    if sc.inject.is_some() {
        let mut s = sc.clone();
        s.inject = None;
        out.push(s);
    }
    out
}
