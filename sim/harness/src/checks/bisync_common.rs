//! Shared machinery for the bisync properties (C02, C06, C07, C08, C15): history
//! generator, the "user" actor, run helper, independent reference of the documented
//! semantics (what a completed run leaves, what may disappear).

use crate::common::*;
use copia_simworld::kernel::*;
use copia_simworld::rng::Rng;
use serde::{Deserialize, Serialize};
use std::collections::{BTreeMap, BTreeSet};

pub const ROOT_A: &str = "/sim/A";
pub const ROOT_B: &str = "/sim/B";
pub const HOME: &str = "/home/u";
pub const HOST: &str = "local";

pub const PATHS: &[&str] = &[
    "f",
    "d/g",
    "a b",
    "q'q",
    "d/e/deep",
    "$x*",
    "-dash",
    ".dot",
    "n\nl",
    "t\tb\\s",
    "ünï\"",
    "x",
    "x/y",
];

/// Contents: distinct, none a prefix of another (they differ at byte 1).
pub fn content(idx: u32) -> Vec<u8> {
    let i = idx % 12;
    let mut v = format!("<{}:{}>", (b'a' + i as u8) as char, i).into_bytes();
    match i {
        9 => v.extend(std::iter::repeat(b'L').take(70_000)),
        10 => v.extend(std::iter::repeat(b'M').take(140_000)),
        11 => v.clear(), // the empty file: prefix of everything, handled by the oracle as such
        _ => {}
    }
    v
}

#[derive(Clone, Debug, Serialize, Deserialize, PartialEq)]
pub enum PathSel {
    Base(u32),
    /// k-th existing path (mod count) on that side — reaches conflict-copies
    Existing(u32),
    /// k-th existing conflict-copy on that side, if any
    Conflict(u32),
}

#[derive(Clone, Debug, Serialize, Deserialize, PartialEq)]
pub enum Step {
    Write { side: u8, path: PathSel, content: u32 },
    Delete { side: u8, path: PathSel },
    Bisync,
    /// bisync with one injected I/O error: (op kind index, nth)
    BisyncFault { kind: u8, nth: u32 },
}

#[derive(Clone, Debug, Serialize, Deserialize)]
pub struct History {
    pub seed: u64,
    pub hostname_env: bool,
    pub npaths: u32,
    pub ncontents: u32,
    pub steps: Vec<Step>,
    pub allow_clash: bool,
}

pub fn gen_history(r: &mut Rng, max_steps: usize, with_faults: bool) -> History {
    let npaths = r.range(2, 6) as u32;
    let ncontents = r.range(3, 8) as u32;
    let allow_clash = r.below(12) == 0;
    let nsteps = r.urange(3, max_steps);
    let mut steps = Vec::new();
    // initial population
    for _ in 0..r.urange(0, 4) {
        steps.push(Step::Write {
            side: r.below(2) as u8,
            path: PathSel::Base(r.below(u64::from(npaths)) as u32),
            content: r.below(u64::from(ncontents)) as u32,
        });
    }
    while steps.len() < nsteps {
        let k = r.below(100);
        let side = r.below(2) as u8;
        let path = match r.below(10) {
            0 | 1 => PathSel::Existing(r.below(16) as u32),
            2 | 3 => PathSel::Conflict(r.below(4) as u32),
            _ => PathSel::Base(r.below(u64::from(npaths)) as u32),
        };
        if k < 38 {
            let content = if r.below(12) == 0 {
                100 + r.below(3) as u32
            } else {
                r.below(u64::from(ncontents)) as u32
            };
            steps.push(Step::Write { side, path, content });
        } else if k < 58 {
            steps.push(Step::Delete { side, path });
        } else if with_faults && k < 64 {
            steps.push(Step::BisyncFault {
                kind: r.below(7) as u8,
                nth: r.range(1, 6) as u32,
            });
        } else {
            steps.push(Step::Bisync);
        }
    }
    steps.push(Step::Bisync);
    History {
        seed: r.next_u64(),
        hostname_env: r.coin(),
        npaths,
        ncontents,
        steps,
        allow_clash,
    }
}

pub fn content_of(c: u32, h: &History) -> Vec<u8> {
    if c >= 100 {
        content(9 + (c - 100) % 3)
    } else {
        content(c % h.ncontents.max(1))
    }
}

/// The path universe of a history: a seeded selection from PATHS; the file-vs-directory
/// clash pair ("x", "x/y") is forced in only when the history allows clashes.
pub fn path_name(h: &History, i: u32) -> String {
    let mut idx: Vec<usize> = (0..PATHS.len() - 2).collect();
    let mut r = Rng::new(h.seed ^ 0x9A7B);
    r.shuffle(&mut idx);
    let i = (i % h.npaths.max(1)) as usize;
    if h.allow_clash {
        if i == 0 {
            return "x".into();
        }
        if i == 1 {
            return "x/y".into();
        }
    }
    PATHS[idx[i % idx.len()]].to_string()
}

pub fn shrink_history(h: &History) -> Vec<History> {
    let mut out = Vec::new();
    let n = h.steps.len();
    // drop halves, then single steps
    if n > 2 {
        out.push(History { steps: h.steps[n / 2..].to_vec(), ..h.clone() });
        out.push(History { steps: h.steps[..n / 2].to_vec(), ..h.clone() });
    }
    for i in 0..n {
        let mut s = h.steps.clone();
        s.remove(i);
        out.push(History { steps: s, ..h.clone() });
    }
    // simplify: faults -> plain bisync, big contents -> small
    for i in 0..n {
        match &h.steps[i] {
            Step::BisyncFault { .. } => {
                let mut s = h.steps.clone();
                s[i] = Step::Bisync;
                out.push(History { steps: s, ..h.clone() });
            }
            Step::Write { side, path, content } if *content >= 100 => {
                let mut s = h.steps.clone();
                s[i] = Step::Write { side: *side, path: path.clone(), content: content % 3 };
                out.push(History { steps: s, ..h.clone() });
            }
            _ => {}
        }
    }
    out
}

pub fn root_of(side: u8) -> &'static str {
    if side == 0 {
        ROOT_A
    } else {
        ROOT_B
    }
}

pub fn new_world() -> World {
    let mut w = World::new();
    let t = w.clock_ns;
    w.host(HOST).mkdir_p(ROOT_A, t);
    w.host(HOST).mkdir_p(ROOT_B, t);
    w.host(HOST).mkdir_p(HOME, t);
    w
}

fn resolve_sel(w: &World, side: u8, sel: &PathSel, h: &History) -> Option<String> {
    let tree = strip_staging(&tree_bytes(w, HOST, root_of(side)));
    match sel {
        PathSel::Base(i) => Some(path_name(h, *i)),
        PathSel::Existing(k) => {
            if tree.is_empty() {
                None
            } else {
                tree.keys().nth(*k as usize % tree.len()).cloned()
            }
        }
        PathSel::Conflict(k) => {
            let c: Vec<&String> = tree.keys().filter(|p| p.contains(".conflict-")).collect();
            if c.is_empty() {
                None
            } else {
                Some(c[*k as usize % c.len()].clone())
            }
        }
    }
}

/// The user edits a tree between runs (advances the clock so mtimes differ).
pub fn apply_user_step(w: &mut World, step: &Step, h: &History, clock_skew: u64) -> Option<(u8, String)> {
    match step {
        Step::Write { side, path, content: c } => {
            let p = resolve_sel(w, *side, path, h)?;
            let full = format!("{}/{}", root_of(*side), p);
            w.clock_ns += 1_500_000_000 + clock_skew;
            // "forall assignments of mtimes": most edits carry the current time, some are
            // backdated (cp -p / tar x / touch -d) or carry the same mtime as before
            let pick = crate::gen::fnv(&[h.seed, clock_skew, crate::gen::fnv_bytes(p.as_bytes()), u64::from(*c), w.clock_ns / 1_000_000_000 % 7]);
            let t = match pick % 6 {
                0 => 978_307_200_000_000_000 + (pick % 1000) * 1_000_000_000, // year 2001
                1 => 1_700_000_000_000_000_000,                               // the world's start time
                // ahead of the clock (skewed peer, restored backup, touch -d '+3 days')
                2 => w.clock_ns + (1 + pick % 400) * 3_600_000_000_000,
                _ => w.clock_ns,
            };
            let fs = w.host(HOST);
            // writing below an existing file, or over a directory, is not a user action we model
            if fs.stat("/", &full, true).map(|m| m.kind == copia_simworld::fs::Kind::Dir).unwrap_or(false) {
                return None;
            }
            if let Some(idx) = full.rfind('/') {
                let parent = &full[..idx];
                // refuse if an ancestor is a regular file
                let mut cur = String::new();
                for comp in parent.split('/').filter(|c| !c.is_empty()) {
                    cur.push('/');
                    cur.push_str(comp);
                    if let Ok(m) = fs.stat("/", &cur, true) {
                        if m.kind != copia_simworld::fs::Kind::Dir {
                            return None;
                        }
                    }
                }
            }
            fs.put_file(&full, &content_of(*c, h), t);
            Some((*side, p))
        }
        Step::Delete { side, path } => {
            let p = resolve_sel(w, *side, path, h)?;
            let full = format!("{}/{}", root_of(*side), p);
            w.clock_ns += 1_000_000_000;
            if w.host(HOST).remove_file(&full) {
                Some((*side, p))
            } else {
                None
            }
        }
        _ => None,
    }
}

pub fn bisync_env(h_env: bool) -> BTreeMap<String, String> {
    let mut e = env_of(&[("HOME", HOME)]);
    if h_env {
        e.insert("HOSTNAME".into(), "hostA".into());
    } else {
        e.insert("SIM_HOSTNAME".into(), "simhost".into());
    }
    e
}

pub fn host_id(h_env: bool) -> &'static str {
    if h_env {
        "hostA"
    } else {
        "simhost"
    }
}

pub fn run_bisync(world: World, cfg: RunCfg, a: &str, b: &str, flags: &[&str], h_env: bool) -> Outcome {
    let mut argv = sv(&["copia", "bisync", a, b]);
    for f in flags {
        argv.push((*f).to_string());
    }
    run_one(world, cfg, "bisync", HOST, &argv, bisync_env(h_env))
}

#[derive(Clone, Copy, Debug, PartialEq, Eq)]
pub enum RunKind {
    Completed,
    Aborted,
    Crashed,
}

pub fn classify(out: &Outcome) -> RunKind {
    let p = &out.procs[0];
    match &p.exit {
        ExitKind::Code(0) => RunKind::Completed,
        ExitKind::Code(1) => {
            let e = p.err_str();
            if e.contains("had conflicts (both versions preserved)") {
                RunKind::Completed
            } else {
                RunKind::Aborted
            }
        }
        ExitKind::Code(_) => RunKind::Aborted,
        _ => RunKind::Crashed,
    }
}

pub fn pair_hash(a: &str, b: &str) -> String {
    let mut h = blake3::Hasher::new();
    h.update(a.as_bytes());
    h.update(b"\0");
    h.update(b.as_bytes());
    h.finalize().to_hex().to_string()
}

pub fn archive_file(a: &str, b: &str) -> String {
    format!("{HOME}/.copia/archive/{}.json", pair_hash(a, b))
}

/// Is `q` the path `p` itself or one of its conflict siblings?
pub fn at_or_conflict_of(q: &str, p: &str) -> bool {
    q == p || (q.starts_with(p) && q[p.len()..].starts_with(".conflict-"))
}

pub fn has_version(tree: &Tree, p: &str, bytes: &[u8]) -> bool {
    tree.iter().any(|(q, b)| at_or_conflict_of(q, p) && b == bytes)
}

/// Version-conservation oracle of C02 for one run. `l` = the tree both sides held at the
/// end of the last completed run. Returns a description of the first lost version.
pub fn lost_version(
    a0: &Tree,
    b0: &Tree,
    a1: &Tree,
    b1: &Tree,
    l: &Tree,
    kind: RunKind,
) -> Option<(String, String)> {
    for (side, mine, other, after_mine, after_other) in
        [(0u8, a0, b0, a1, b1), (1u8, b0, a0, b1, a1)]
    {
        for (p, c) in mine {
            if is_staging(p) {
                continue;
            }
            let may_disappear = l.get(p) == Some(c) && other.get(p) != Some(c);
            if may_disappear {
                continue;
            }
            let own = has_version(after_mine, p, c);
            let oth = has_version(after_other, p, c);
            let ok = match kind {
                RunKind::Completed => own && oth,
                _ => own,
            };
            if !ok {
                let class = lost_class(p, c, mine, other, l, own, oth, after_mine, after_other);
                return Some((
                    class,
                    format!(
                        "version (side {}, path {:?}, {} bytes, blake3 {}) present at run start is missing afterwards (own side: {}, other side: {}); L[path]={}",
                        if side == 0 { "A" } else { "B" },
                        p,
                        c.len(),
                        short_hex(&b3(c)),
                        own,
                        oth,
                        l.get(p).map(|x| short_hex(&b3(x))).unwrap_or_else(|| "absent".into()),
                    ),
                ));
            }
        }
    }
    None
}

fn lost_class(p: &str, c: &[u8], mine: &Tree, other: &Tree, l: &Tree, own: bool, _oth: bool, after_mine: &Tree, after_other: &Tree) -> String {
    // Root cause "edited conflict-copy overwritten": the lost version lived at a
    // conflict-copy name, was NOT the content that name stands for (the user edited it),
    // and after the run that very name holds the content its embedded hash stands for
    // (a later conflict lost the same content again and was copied over it).
    if let Some(idx) = p.rfind(".conflict-") {
        let name_hash = p[idx..].rsplit('-').next().unwrap_or("");
        let edited = short_hex(&b3(c)) != name_hash;
        let now_loser = after_mine.get(p).map_or(false, |b| short_hex(&b3(b)) == name_hash);
        if edited && now_loser {
            return "edited-conflict-copy-overwritten".into();
        }
        return "conflict-copy-version-lost".into();
    }
    // Root cause "conflict-copy re-created, then removed by the delete planned for that
    // name": the lost version lost a conflict now; its conflict-copy name q already
    // existed with the same content on exactly one side at run start (the other side had
    // deleted it, L[q] == content, so a delete of q was planned), and after the run q is
    // present on one side only.
    let suffix = format!("-{}", short_hex(&b3(c)));
    let prefix = format!("{p}.conflict-");
    let qs: Vec<&String> = mine
        .keys()
        .chain(other.keys())
        .chain(after_mine.keys())
        .chain(after_other.keys())
        .filter(|q| q.starts_with(&prefix) && q.ends_with(&suffix))
        .collect();
    for q in qs {
        // q existed on exactly one side, unchanged since the last completed run (so the
        // other side's delete of q was planned to be propagated)
        let survivor = match (mine.get(q), other.get(q)) {
            (Some(x), None) | (None, Some(x)) => Some(x),
            _ => None,
        };
        let delete_planned = survivor.map_or(false, |x| l.get(q) == Some(x));
        let after = (after_mine.contains_key(q), after_other.contains_key(q));
        if delete_planned && (after.0 != after.1) {
            return "conflict-copy-recreated-then-removed-by-planned-delete".into();
        }
    }
    if !own && other.get(p).is_none() && l.get(p).is_none() {
        return "recreated-file-deleted-by-stale-archive-entry".into();
    }
    if !own {
        "version-lost-on-own-side".into()
    } else {
        "version-not-propagated".into()
    }
}

/// Parse the archive JSON into path -> blake3 (hex of 32 bytes) map; None if unparsable.
pub fn archive_entries(w: &World, a: &str, b: &str) -> Option<BTreeMap<String, [u8; 32]>> {
    let bytes = w.fs(HOST).get_file(&archive_file(a, b))?;
    let v: serde_json::Value = serde_json::from_slice(&bytes).ok()?;
    let e = v.get("entries")?.as_object()?;
    let mut out = BTreeMap::new();
    for (k, fp) in e {
        let arr = fp.get("blake3")?.as_array()?;
        let mut h = [0u8; 32];
        if arr.len() != 32 {
            return None;
        }
        for (i, x) in arr.iter().enumerate() {
            h[i] = x.as_u64()? as u8;
        }
        out.insert(k.clone(), h);
    }
    Some(out)
}

pub fn mutating_in_roots(trace: &[OpRec], pid: Pid, roots: &[&str]) -> Vec<String> {
    trace
        .iter()
        .filter(|r| r.pid == pid && r.mutating && roots.iter().any(|root| under(&r.path, root) || under(&r.path2, root)))
        .map(|r| format!("{:?} {} {}", r.kind, r.path, r.path2))
        .collect()
}

pub fn under(path: &str, root: &str) -> bool {
    path == root || (path.starts_with(root) && path[root.len()..].starts_with('/'))
}

pub fn unlinks_in_roots(trace: &[OpRec], roots: &[&str]) -> Vec<String> {
    trace
        .iter()
        .filter(|r| {
            matches!(r.kind, OpKind::Unlink | OpKind::Rmdir)
                && roots.iter().any(|root| under(&r.path, root))
                && !is_staging(&r.path)
        })
        .map(|r| r.path.clone())
        .collect()
}

pub fn plan_line(out: &Outcome) -> Option<(u64, u64)> {
    let e = out.procs[0].err_str();
    for l in e.lines() {
        if let Some(rest) = l.strip_prefix("Bidirectional plan: ") {
            let mut it = rest.split_whitespace();
            let n: u64 = it.next()?.parse().ok()?;
            let _ = it.next();
            let c: u64 = it.next()?.parse().ok()?;
            return Some((n, c));
        }
    }
    None
}

pub fn tree_hash(t: &Tree) -> u64 {
    let mut h = 0xcbf2_9ce4_8422_2325u64;
    for (k, v) in t {
        for b in k.bytes().chain(v.iter().copied().take(64)) {
            h = (h ^ u64::from(b)).wrapping_mul(0x100_0000_01B3);
        }
        h = (h ^ v.len() as u64).wrapping_mul(0x100_0000_01B3);
    }
    h
}

pub fn distinct_set(xs: impl Iterator<Item = String>) -> BTreeSet<String> {
    xs.collect()
}
