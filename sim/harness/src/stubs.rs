//! Stubs for the external programs copia spawns: `ssh` (a reliable ordered byte stream to
//! a remote login shell), a POSIX-sh subset with bash `$'…'` quoting, and the GNU
//! coreutils commands copia sends (`cd find xargs mkdir cat mv rm touch`). The stub runs
//! as a simulated process on the target host's file system, so its effects interleave
//! with everything else and it keeps running when its sender dies.

use copia_simworld::kernel::{peek, ProgramFn};
use copia_simworld::shim::std_fs as sfs;
use copia_simworld::shim::std_io as sio;
use std::io::{Read, Write};
use copia_simworld::shim::std_time::UNIX_EPOCH;
use std::time::Duration;

pub const REMOTE_HOME: &str = "/home/remote";

pub fn ssh_program(args: Vec<String>) -> ProgramFn {
    Box::new(move || ssh_main(&args))
}

/// Where the shell's and its commands' diagnostics go (`2>/dev/null`, `2>file`, `2>&1`).
enum ErrTarget {
    Proc,
    Null,
    File(sfs::File),
    /// collected and written to the command's stdout afterwards (`2>&1`)
    Buf(Vec<u8>),
}

thread_local! {
    static ERR_STACK: std::cell::RefCell<Vec<ErrTarget>> = const { std::cell::RefCell::new(Vec::new()) };
}

// Shell syntax or a command the stand-in does not model is reported through the simulated
// world's "unsupported" flag: the check then reports a harness error instead of mistaking the
// stand-in's failure for the behaviour of a real remote shell.
fn unsupported(what: &str) {
    copia_simworld::kernel::note_unsupported(what);
}

fn eprint_proc(msg: &str) {
    let handled = ERR_STACK.with(|st| {
        let mut st = st.borrow_mut();
        match st.last_mut() {
            None | Some(ErrTarget::Proc) => false,
            Some(ErrTarget::Null) => true,
            Some(ErrTarget::File(f)) => {
                let _ = f.write_all(msg.as_bytes());
                true
            }
            Some(ErrTarget::Buf(b)) => {
                b.extend_from_slice(msg.as_bytes());
                true
            }
        }
    });
    if !handled {
        let _ = sio::stderr().write_all(msg.as_bytes());
    }
}

fn ssh_main(args: &[String]) -> i32 {
    let mut i = 0;
    while i < args.len() && args[i].starts_with('-') {
        // options without arguments that copia uses: -T
        i += 1;
    }
    if i >= args.len() {
        eprint_proc("usage: ssh host command\n");
        return 255;
    }
    let host = args[i].clone();
    let cmd = args[i + 1..].join(" ");
    // "connect": the target host must exist in the world
    let ok = peek({
        let host = host.clone();
        move |st, pid| {
            if st.world.hosts.contains_key(&host) && !st.procs[pid as usize].env.contains_key("SIM_SSH_DOWN") {
                let p = &mut st.procs[pid as usize];
                p.host = host.clone();
                p.cwd = REMOTE_HOME.to_string();
                p.env.insert("HOME".into(), REMOTE_HOME.into());
                p.env.insert("HOSTNAME".into(), host.clone());
                // the remote login shell has its own time zone
                if let Some(tz) = p.env.remove("SIM_REMOTE_TZ") {
                    p.env.insert("TZ".into(), tz);
                } else {
                    p.env.remove("TZ");
                }
                true
            } else {
                false
            }
        }
    });
    if !ok {
        eprint_proc(&format!(
            "ssh: Could not resolve hostname {host}: Name or service not known\n"
        ));
        return 255;
    }
    run_shell(&cmd)
}

// ---- tokenizer -------------------------------------------------------------------------

#[derive(Clone, Debug, PartialEq)]
enum Part {
    Lit(String),
    /// `$( ... )`: expanded when the command runs; `quoted` = inside double quotes
    Sub(String, bool),
}

#[derive(Clone, Copy, Debug, PartialEq)]
enum RedirOp {
    /// `>`
    Out,
    /// `>>`
    Append,
    /// `<`
    In,
    /// `<>`
    InOut,
    /// `>&`
    DupOut,
}

#[derive(Clone, Debug, PartialEq)]
enum Tok {
    /// a word; `plain` = written without any quoting (only then `{` / `}` are reserved words)
    Word(Vec<Part>, bool),
    And,
    Or,
    Semi,
    /// `[n]>`, `[n]>>`, `[n]<`, `[n]<>`, `[n]>&`
    Redir(Option<u32>, RedirOp),
    Pipe,
    LParen,
    RParen,
}

fn ansi_c(chars: &[char], i: &mut usize, out: &mut String) -> Result<(), String> {
    // after $' ; until unescaped '
    let mut bytes: Vec<u8> = Vec::new();
    loop {
        if *i >= chars.len() {
            return Err("unexpected EOF while looking for matching `''".into());
        }
        let c = chars[*i];
        *i += 1;
        if c == '\'' {
            break;
        }
        if c != '\\' {
            let mut b = [0u8; 4];
            bytes.extend_from_slice(c.encode_utf8(&mut b).as_bytes());
            continue;
        }
        if *i >= chars.len() {
            bytes.push(b'\\');
            break;
        }
        let e = chars[*i];
        *i += 1;
        match e {
            'n' => bytes.push(b'\n'),
            't' => bytes.push(b'\t'),
            'r' => bytes.push(b'\r'),
            'a' => bytes.push(7),
            'b' => bytes.push(8),
            'e' | 'E' => bytes.push(27),
            'f' => bytes.push(12),
            'v' => bytes.push(11),
            '\\' => bytes.push(b'\\'),
            '\'' => bytes.push(b'\''),
            '"' => bytes.push(b'"'),
            '?' => bytes.push(b'?'),
            '0'..='7' => {
                let mut v = e.to_digit(8).unwrap();
                let mut n = 1;
                while n < 3 && *i < chars.len() && chars[*i].is_digit(8) {
                    v = v * 8 + chars[*i].to_digit(8).unwrap();
                    *i += 1;
                    n += 1;
                }
                bytes.push((v & 0xFF) as u8);
            }
            'x' => {
                let mut v = 0u32;
                let mut n = 0;
                while n < 2 && *i < chars.len() && chars[*i].is_ascii_hexdigit() {
                    v = v * 16 + chars[*i].to_digit(16).unwrap();
                    *i += 1;
                    n += 1;
                }
                if n == 0 {
                    bytes.extend_from_slice(b"\\x");
                } else {
                    bytes.push(v as u8);
                }
            }
            other => {
                bytes.push(b'\\');
                let mut b = [0u8; 4];
                bytes.extend_from_slice(other.encode_utf8(&mut b).as_bytes());
            }
        }
    }
    out.push_str(&String::from_utf8_lossy(&bytes));
    Ok(())
}

fn tokenize(s: &str) -> Result<Vec<Tok>, String> {
    let chars: Vec<char> = s.chars().collect();
    let mut i = 0;
    let mut toks = Vec::new();
    let mut parts: Vec<Part> = Vec::new();
    let mut cur = String::new();
    let mut have = false;
    let mut quoted = false;
    macro_rules! flush {
        () => {
            if have {
                if !cur.is_empty() || parts.is_empty() {
                    parts.push(Part::Lit(std::mem::take(&mut cur)));
                }
                toks.push(Tok::Word(std::mem::take(&mut parts), !quoted));
                have = false;
            }
            #[allow(unused_assignments)]
            {
                quoted = false;
            }
        };
    }
    // read a `$( ... )` body starting after "$(" ; returns the inner text
    fn subst_body(chars: &[char], i: &mut usize) -> Result<String, String> {
        let mut depth = 1;
        let mut out = String::new();
        while *i < chars.len() {
            let c = chars[*i];
            *i += 1;
            match c {
                '(' => {
                    depth += 1;
                    out.push(c);
                }
                ')' => {
                    depth -= 1;
                    if depth == 0 {
                        return Ok(out);
                    }
                    out.push(c);
                }
                '\'' => {
                    out.push(c);
                    // $'..' inside: backslash-quote does not end it
                    let ansi = out.ends_with("$'");
                    while *i < chars.len() {
                        let d = chars[*i];
                        *i += 1;
                        out.push(d);
                        if ansi && d == '\\' && *i < chars.len() {
                            out.push(chars[*i]);
                            *i += 1;
                            continue;
                        }
                        if d == '\'' {
                            break;
                        }
                    }
                }
                _ => out.push(c),
            }
        }
        Err("unexpected EOF while looking for matching `)'".into())
    }
    while i < chars.len() {
        let c = chars[i];
        match c {
            ' ' | '\t' | '\n' => {
                flush!();
                if c == '\n' {
                    toks.push(Tok::Semi);
                }
                i += 1;
            }
            '&' if i + 1 < chars.len() && chars[i + 1] == '&' => {
                flush!();
                toks.push(Tok::And);
                i += 2;
            }
            '|' if i + 1 < chars.len() && chars[i + 1] == '|' => {
                flush!();
                toks.push(Tok::Or);
                i += 2;
            }
            '|' => {
                flush!();
                toks.push(Tok::Pipe);
                i += 1;
            }
            ';' => {
                flush!();
                toks.push(Tok::Semi);
                i += 1;
            }
            '>' | '<' => {
                // a word of digits glued to the operator is a descriptor number
                let fd = if have && !quoted && parts.is_empty() && !cur.is_empty() && cur.chars().all(|d| d.is_ascii_digit()) {
                    let n = cur.parse::<u32>().ok();
                    cur.clear();
                    have = false;
                    n
                } else {
                    flush!();
                    None
                };
                let next = chars.get(i + 1).copied();
                let (op, used) = match (c, next) {
                    ('>', Some('>')) => (RedirOp::Append, 2),
                    ('>', Some('&')) => (RedirOp::DupOut, 2),
                    ('<', Some('>')) => (RedirOp::InOut, 2),
                    ('>', _) => (RedirOp::Out, 1),
                    (_, _) => (RedirOp::In, 1),
                };
                toks.push(Tok::Redir(fd, op));
                i += used;
            }
            '(' => {
                flush!();
                toks.push(Tok::LParen);
                i += 1;
            }
            ')' => {
                flush!();
                toks.push(Tok::RParen);
                i += 1;
            }
            '\\' => {
                i += 1;
                quoted = true;
                if i < chars.len() {
                    if chars[i] != '\n' {
                        cur.push(chars[i]);
                        have = true;
                    }
                    i += 1;
                }
            }
            '\'' => {
                have = true;
                quoted = true;
                i += 1;
                loop {
                    if i >= chars.len() {
                        return Err("unexpected EOF while looking for matching `''".into());
                    }
                    if chars[i] == '\'' {
                        i += 1;
                        break;
                    }
                    cur.push(chars[i]);
                    i += 1;
                }
            }
            '"' => {
                have = true;
                quoted = true;
                i += 1;
                loop {
                    if i >= chars.len() {
                        return Err("unexpected EOF while looking for matching `\"'".into());
                    }
                    let d = chars[i];
                    if d == '"' {
                        i += 1;
                        break;
                    }
                    if d == '\\' && i + 1 < chars.len() && matches!(chars[i + 1], '"' | '\\' | '$' | '`') {
                        cur.push(chars[i + 1]);
                        i += 2;
                        continue;
                    }
                    if d == '$' && i + 1 < chars.len() && chars[i + 1] == '(' {
                        i += 2;
                        let body = subst_body(&chars, &mut i)?;
                        if !cur.is_empty() {
                            parts.push(Part::Lit(std::mem::take(&mut cur)));
                        }
                        parts.push(Part::Sub(body, true));
                        continue;
                    }
                    cur.push(d);
                    i += 1;
                }
            }
            '$' if i + 1 < chars.len() && chars[i + 1] == '\'' => {
                have = true;
                quoted = true;
                i += 2;
                ansi_c(&chars, &mut i, &mut cur)?;
            }
            '$' if i + 1 < chars.len() && chars[i + 1] == '(' => {
                have = true;
                i += 2;
                let body = subst_body(&chars, &mut i)?;
                if !cur.is_empty() {
                    parts.push(Part::Lit(std::mem::take(&mut cur)));
                }
                parts.push(Part::Sub(body, false));
            }
            _ => {
                cur.push(c);
                have = true;
                i += 1;
            }
        }
    }
    flush!();
    Ok(toks)
}

/// Expand one word at execution time: literals as they are, `$(..)` by running the inner
/// command with its stdout captured (trailing newlines stripped; unquoted results are
/// split on whitespace).
fn expand(parts: &[Part]) -> Vec<String> {
    let mut words: Vec<String> = vec![String::new()];
    let mut any = false;
    for p in parts {
        match p {
            Part::Lit(s) => {
                words.last_mut().unwrap().push_str(s);
                any = true;
            }
            Part::Sub(cmd, quoted) => {
                let mut cap = Out::Buf(Vec::new());
                let _ = run_shell_with(cmd, &mut cap);
                let Out::Buf(b) = cap else { continue };
                let text = String::from_utf8_lossy(&b).trim_end_matches('\n').to_string();
                if *quoted {
                    words.last_mut().unwrap().push_str(&text);
                    any = true;
                } else {
                    let mut first = true;
                    for piece in text.split_whitespace() {
                        if !first {
                            words.push(String::new());
                        }
                        words.last_mut().unwrap().push_str(piece);
                        first = false;
                        any = true;
                    }
                }
            }
        }
    }
    if !any && parts.iter().all(|p| matches!(p, Part::Sub(_, false))) {
        return Vec::new();
    }
    words
}

// ---- interpreter -----------------------------------------------------------------------

enum Out {
    Proc,
    File(sfs::File),
    Buf(Vec<u8>),
    Null,
}

impl Out {
    fn write_all(&mut self, b: &[u8]) -> std::io::Result<()> {
        match self {
            Out::Proc => sio::stdout().write_all(b),
            Out::File(f) => f.write_all(b),
            Out::Buf(v) => {
                v.extend_from_slice(b);
                Ok(())
            }
            Out::Null => Ok(()),
        }
    }
}

enum In {
    Proc,
    File(sfs::File),
    /// output of the previous pipeline stage (stages run one after the other)
    Buf(std::io::Cursor<Vec<u8>>),
    Empty,
}

impl In {
    fn read(&mut self, buf: &mut [u8]) -> std::io::Result<usize> {
        match self {
            In::Proc => sio::stdin().read(buf),
            In::File(f) => f.read(buf),
            In::Buf(c) => c.read(buf),
            In::Empty => Ok(0),
        }
    }
    fn read_all(&mut self) -> std::io::Result<Vec<u8>> {
        let mut out = Vec::new();
        let mut buf = vec![0u8; 65536];
        loop {
            let n = self.read(&mut buf)?;
            if n == 0 {
                break;
            }
            out.extend_from_slice(&buf[..n]);
        }
        Ok(out)
    }
}

pub fn run_shell(cmd: &str) -> i32 {
    let mut out = Out::Proc;
    run_shell_with(cmd, &mut out)
}

fn run_shell_with(cmd: &str, default_out: &mut Out) -> i32 {
    let toks = match tokenize(cmd) {
        Ok(t) => t,
        Err(e) => {
            eprint_proc(&format!("bash: -c: {e}\n"));
            return 2;
        }
    };
    let mut sh = Shell { toks, i: 0, syntax_error: false };
    let mut inp = In::Proc;
    let st = sh.list(true, &mut inp, default_out, End::Eof);
    if sh.syntax_error || sh.i < sh.toks.len() {
        eprint_proc("bash: -c: syntax error near unexpected token\n");
        unsupported(&format!("shell syntax the stand-in does not parse: {cmd}"));
        return 2;
    }
    st
}

#[derive(Clone, Copy, PartialEq)]
enum End {
    Eof,
    Brace,
    Paren,
}

struct Redir {
    fd: Option<u32>,
    op: RedirOp,
    target: Vec<Part>,
}

struct Shell {
    toks: Vec<Tok>,
    i: usize,
    syntax_error: bool,
}

fn is_plain(tok: Option<&Tok>, lit: &str) -> bool {
    matches!(tok, Some(Tok::Word(parts, true)) if parts.len() == 1 && parts[0] == Part::Lit(lit.to_string()))
}

impl Shell {
    /// list := pipeline ((&& | || | ;) pipeline)* ; with `exec == false` the tokens are only parsed
    fn list(&mut self, exec: bool, inp: &mut In, out: &mut Out, end: End) -> i32 {
        let mut status = 0;
        let mut skip = false;
        loop {
            while matches!(self.toks.get(self.i), Some(Tok::Semi)) {
                self.i += 1;
                skip = false;
            }
            match self.toks.get(self.i) {
                None => break,
                Some(Tok::RParen) if end == End::Paren => break,
                t if end == End::Brace && is_plain(t, "}") => break,
                _ => {}
            }
            let run = exec && !skip;
            let st = self.pipeline(run, inp, out);
            if self.syntax_error {
                return 2;
            }
            if run {
                status = st;
            }
            match self.toks.get(self.i) {
                Some(Tok::And) => {
                    // a skipped command keeps the previous status
                    skip = status != 0;
                    self.i += 1;
                }
                Some(Tok::Or) => {
                    skip = status == 0;
                    self.i += 1;
                }
                Some(Tok::Semi) => {
                    skip = false;
                    self.i += 1;
                }
                _ => break,
            }
        }
        status
    }

    /// pipeline := command (| command)* ; the stages run one after the other, each reading what
    /// the previous one wrote (no concurrency between stages)
    fn pipeline(&mut self, exec: bool, inp: &mut In, out: &mut Out) -> i32 {
        let mut carried: Option<Vec<u8>> = None;
        loop {
            // look ahead (parse only): does a `|` follow this command?
            let save = self.i;
            self.command(false, &mut In::Empty, &mut Out::Null);
            if self.syntax_error {
                return 2;
            }
            let more = matches!(self.toks.get(self.i), Some(Tok::Pipe));
            self.i = save;
            match (carried.take(), more) {
                (None, false) => return self.command(exec, inp, out),
                (None, true) => {
                    let mut cap = Out::Buf(Vec::new());
                    self.command(exec, inp, &mut cap);
                    if let Out::Buf(b) = cap {
                        carried = Some(b);
                    }
                }
                (Some(b), true) => {
                    let mut sin = In::Buf(std::io::Cursor::new(b));
                    let mut cap = Out::Buf(Vec::new());
                    self.command(exec, &mut sin, &mut cap);
                    if let Out::Buf(b) = cap {
                        carried = Some(b);
                    }
                }
                (Some(b), false) => {
                    let mut sin = In::Buf(std::io::Cursor::new(b));
                    return self.command(exec, &mut sin, out);
                }
            }
            if self.syntax_error {
                return 2;
            }
            self.i += 1; // the `|`
        }
    }

    fn redirs(&mut self, into: &mut Vec<Redir>) {
        while let Some(Tok::Redir(fd, op)) = self.toks.get(self.i).cloned() {
            self.i += 1;
            match self.toks.get(self.i) {
                Some(Tok::Word(w, _)) => {
                    into.push(Redir { fd, op, target: w.clone() });
                    self.i += 1;
                }
                _ => {
                    self.syntax_error = true;
                    return;
                }
            }
        }
    }

    /// command := `{` list `}` redirs | `(` list `)` redirs | words-and-redirs
    fn command(&mut self, exec: bool, inp: &mut In, out: &mut Out) -> i32 {
        let group = if is_plain(self.toks.get(self.i), "{") {
            Some(End::Brace)
        } else if matches!(self.toks.get(self.i), Some(Tok::LParen)) {
            Some(End::Paren)
        } else {
            None
        };
        if let Some(end) = group {
            self.i += 1;
            let body = self.i;
            // find the end of the group and its redirections first
            self.list(false, &mut In::Empty, &mut Out::Null, end);
            let closed = match end {
                End::Brace => is_plain(self.toks.get(self.i), "}"),
                _ => matches!(self.toks.get(self.i), Some(Tok::RParen)),
            };
            if self.syntax_error || !closed {
                self.syntax_error = true;
                return 2;
            }
            self.i += 1;
            let mut rs = Vec::new();
            self.redirs(&mut rs);
            if self.syntax_error {
                return 2;
            }
            let after = self.i;
            if !exec {
                return 0;
            }
            let cwd0 = peek(|st, pid| st.procs[pid as usize].cwd.clone());
            self.i = body;
            let st = with_redirs(&rs, inp, out, |i2, o2| self.list(true, i2, o2, end));
            self.i = after;
            if end == End::Paren {
                // a subshell's `cd` does not outlive it
                peek(move |st, pid| st.procs[pid as usize].cwd = cwd0);
            }
            return st;
        }
        let mut words: Vec<Vec<Part>> = Vec::new();
        let mut rs: Vec<Redir> = Vec::new();
        loop {
            match self.toks.get(self.i) {
                Some(Tok::Word(w, _)) => {
                    words.push(w.clone());
                    self.i += 1;
                }
                Some(Tok::Redir(..)) => {
                    self.redirs(&mut rs);
                    if self.syntax_error {
                        return 2;
                    }
                }
                Some(Tok::LParen) => {
                    // function definitions, arrays, ... are not modelled
                    self.syntax_error = true;
                    return 2;
                }
                _ => break,
            }
        }
        if words.is_empty() && rs.is_empty() {
            self.syntax_error = true;
            return 2;
        }
        if !exec {
            return 0;
        }
        // expansion happens now, when the command is about to run
        let w: Vec<String> = words.iter().flat_map(|p| expand(p)).collect();
        with_redirs(&rs, inp, out, |i2, o2| {
            if w.is_empty() {
                return 0;
            }
            run_cmd(&w[0], &w[1..], i2, o2)
        })
    }
}

/// Open the redirections (left to right, as the shell does before the command runs), run `f`
/// with the resulting stdin/stdout, and undo them.
fn with_redirs(rs: &[Redir], inp: &mut In, out: &mut Out, f: impl FnOnce(&mut In, &mut Out) -> i32) -> i32 {
    let mut new_out: Option<Out> = None;
    let mut new_in: Option<In> = None;
    let mut pushed = 0usize;
    let mut out_to_err = false;
    let mut fail: Option<i32> = None;
    for r in rs {
        let p = expand(&r.target).join(" ");
        let fd = r.fd.unwrap_or(match r.op {
            RedirOp::In | RedirOp::InOut => 0,
            _ => 1,
        });
        let open = |opts: &mut sfs::OpenOptions| opts.open(&p);
        let opened: Result<(), std::io::Error> = (|| {
            match (fd, r.op) {
                (1, RedirOp::Out) if p == "/dev/null" => new_out = Some(Out::Null),
                (1, RedirOp::Out) => new_out = Some(Out::File(sfs::File::create(&p)?)),
                (1, RedirOp::Append) if p == "/dev/null" => new_out = Some(Out::Null),
                (1, RedirOp::Append) => new_out = Some(Out::File(open(sfs::OpenOptions::new().append(true).create(true))?)),
                (1, RedirOp::InOut) => new_out = Some(Out::File(open(sfs::OpenOptions::new().read(true).write(true).create(true))?)),
                (0, RedirOp::In) if p == "/dev/null" => new_in = Some(In::Empty),
                (0, RedirOp::In) => new_in = Some(In::File(sfs::File::open(&p)?)),
                (0, RedirOp::InOut) => new_in = Some(In::File(open(sfs::OpenOptions::new().read(true).write(true).create(true))?)),
                (2, RedirOp::Out | RedirOp::Append) if p == "/dev/null" => {
                    ERR_STACK.with(|s| s.borrow_mut().push(ErrTarget::Null));
                    pushed += 1;
                }
                (2, RedirOp::Out) => {
                    let f = sfs::File::create(&p)?;
                    ERR_STACK.with(|s| s.borrow_mut().push(ErrTarget::File(f)));
                    pushed += 1;
                }
                (2, RedirOp::Append) => {
                    let f = open(sfs::OpenOptions::new().append(true).create(true))?;
                    ERR_STACK.with(|s| s.borrow_mut().push(ErrTarget::File(f)));
                    pushed += 1;
                }
                (2, RedirOp::DupOut) if p == "1" => {
                    ERR_STACK.with(|s| s.borrow_mut().push(ErrTarget::Buf(Vec::new())));
                    pushed += 1;
                }
                (1, RedirOp::DupOut) if p == "2" => {
                    new_out = Some(Out::Buf(Vec::new()));
                    out_to_err = true;
                }
                _ => {
                    unsupported(&format!("redirection {fd}{:?} {p}", r.op));
                    return Err(std::io::Error::new(std::io::ErrorKind::Unsupported, "redirection not modelled"));
                }
            }
            Ok(())
        })();
        if let Err(e) = opened {
            eprint_proc(&format!("bash: line 1: {p}: {}\n", os_msg(&e)));
            fail = Some(1);
            break;
        }
    }
    let st = match fail {
        Some(st) => st,
        None => {
            let i2: &mut In = match new_in.as_mut() {
                Some(i) => i,
                None => inp,
            };
            let o2: &mut Out = match new_out.as_mut() {
                Some(o) => o,
                None => &mut *out,
            };
            f(i2, o2)
        }
    };
    // undo the stderr redirections (innermost first); `2>&1` output goes to the command's stdout
    for _ in 0..pushed {
        let t = ERR_STACK.with(|s| s.borrow_mut().pop());
        if let Some(ErrTarget::Buf(b)) = t {
            let target: &mut Out = match new_out.as_mut() {
                Some(o) if !out_to_err => o,
                _ => &mut *out,
            };
            let _ = target.write_all(&b);
        }
    }
    if out_to_err {
        if let Some(Out::Buf(b)) = new_out {
            eprint_proc(&String::from_utf8_lossy(&b));
        }
    }
    st
}

fn os_msg(e: &std::io::Error) -> String {
    let s = e.to_string();
    match s.find(" (os error") {
        Some(i) => s[..i].to_string(),
        None => s,
    }
}

fn run_cmd(name: &str, args: &[String], inp: &mut In, out: &mut Out) -> i32 {
    match name {
        "cd" => {
            let target = args.first().cloned().unwrap_or_else(|| REMOTE_HOME.to_string());
            match sfs::metadata(&target) {
                Ok(m) if m.is_dir() => {
                    let abs = sfs::canonicalize(&target)
                        .map(|p| p.to_string_lossy().into_owned())
                        .unwrap_or(target);
                    peek(move |st, pid| st.procs[pid as usize].cwd = abs);
                    0
                }
                Ok(_) => {
                    eprint_proc(&format!("bash: line 1: cd: {target}: Not a directory\n"));
                    1
                }
                Err(e) => {
                    eprint_proc(&format!("bash: line 1: cd: {target}: {}\n", os_msg(&e)));
                    1
                }
            }
        }
        "true" | ":" => 0,
        "false" => 1,
        "echo" => {
            let s = args.join(" ");
            let _ = out.write_all(format!("{s}\n").as_bytes());
            0
        }
        "find" => cmd_find(args, out),
        "xargs" => cmd_xargs(args, inp, out),
        "mkdir" => cmd_mkdir(args),
        "cat" => cmd_cat(args, inp, out),
        "mv" => cmd_mv(args),
        "rm" => cmd_rm(args),
        "touch" => cmd_touch(args),
        "test" | "[" => cmd_test(name, args),
        "wc" => {
            // wc -c [FILE]: byte count
            let files: Vec<&String> = args.iter().filter(|a| !a.starts_with('-')).collect();
            if let Some(f) = files.first() {
                match sfs::metadata(f) {
                    Ok(m) => {
                        let _ = out.write_all(format!("{} {}\n", m.len(), f).as_bytes());
                        0
                    }
                    Err(e) => {
                        eprint_proc(&format!("wc: {f}: {}\n", os_msg(&e)));
                        1
                    }
                }
            } else {
                let n = inp.read_all().map(|d| d.len()).unwrap_or(0);
                let _ = out.write_all(format!("{n}\n").as_bytes());
                0
            }
        }
        "stat" => {
            // stat -c %s FILE
            let files: Vec<&String> = args.iter().filter(|a| !a.starts_with('-') && !a.starts_with('%')).collect();
            let mut st = 0;
            for f in files {
                match sfs::metadata(f) {
                    Ok(m) => {
                        let _ = out.write_all(format!("{}\n", m.len()).as_bytes());
                    }
                    Err(e) => {
                        eprint_proc(&format!("stat: cannot statx '{f}': {}\n", os_msg(&e)));
                        st = 1;
                    }
                }
            }
            st
        }
        "copia" => {
            let mut argv = vec!["copia".to_string()];
            argv.extend(args.iter().cloned());
            copia_simworld::shim::tokio_rt::block_on(crate::copia_main::verif_entry::run_cli(argv))
        }
        "fallocate" => cmd_fallocate(args),
        "truncate" => cmd_truncate(args),
        other => {
            eprint_proc(&format!("bash: line 1: {other}: command not found\n"));
            unsupported(&format!("command the stand-in does not model: {other}"));
            127
        }
    }
}

fn printf_unescape(fmt: &str) -> Vec<FmtPiece> {
    let cs: Vec<char> = fmt.chars().collect();
    let mut out = Vec::new();
    let mut lit = Vec::new();
    let mut i = 0;
    while i < cs.len() {
        match cs[i] {
            '\\' if i + 1 < cs.len() => {
                i += 1;
                match cs[i] {
                    't' => lit.push(b'\t'),
                    'n' => lit.push(b'\n'),
                    '0' => lit.push(0),
                    '\\' => lit.push(b'\\'),
                    c => {
                        lit.push(b'\\');
                        let mut b = [0u8; 4];
                        lit.extend_from_slice(c.encode_utf8(&mut b).as_bytes());
                    }
                }
                i += 1;
            }
            '%' if i + 1 < cs.len() => {
                if !lit.is_empty() {
                    out.push(FmtPiece::Lit(std::mem::take(&mut lit)));
                }
                i += 1;
                match cs[i] {
                    's' => out.push(FmtPiece::Size),
                    'p' => out.push(FmtPiece::Path),
                    'P' => out.push(FmtPiece::RelPath),
                    'f' => out.push(FmtPiece::Base),
                    'T' if i + 1 < cs.len() && cs[i + 1] == '@' => {
                        i += 1;
                        out.push(FmtPiece::MtimeAt);
                    }
                    '%' => lit.push(b'%'),
                    c => {
                        unsupported(&format!("find -printf directive %{c}"));
                        lit.push(b'%');
                        let mut b = [0u8; 4];
                        lit.extend_from_slice(c.encode_utf8(&mut b).as_bytes());
                    }
                }
                i += 1;
            }
            c => {
                let mut b = [0u8; 4];
                lit.extend_from_slice(c.encode_utf8(&mut b).as_bytes());
                i += 1;
            }
        }
    }
    if !lit.is_empty() {
        out.push(FmtPiece::Lit(lit));
    }
    out
}

enum FmtPiece {
    /// `%P`: the path with the starting point (and one `/`) removed
    RelPath,
    Lit(Vec<u8>),
    Size,
    Path,
    Base,
    MtimeAt,
}

fn cmd_find(args: &[String], out: &mut Out) -> i32 {
    // find START... [-type f|d] [-printf FMT | -print0 | -print]
    let mut starts = Vec::new();
    let mut i = 0;
    while i < args.len() && !args[i].starts_with('-') {
        starts.push(args[i].clone());
        i += 1;
    }
    if starts.is_empty() {
        starts.push(".".into());
    }
    let mut want_type: Option<char> = None;
    let mut fmt: Option<Vec<FmtPiece>> = None;
    let mut print0 = false;
    while i < args.len() {
        match args[i].as_str() {
            "-type" => {
                want_type = args.get(i + 1).and_then(|s| s.chars().next());
                i += 2;
            }
            "-printf" => {
                fmt = args.get(i + 1).map(|s| printf_unescape(s));
                i += 2;
            }
            "-print0" => {
                print0 = true;
                i += 1;
            }
            "-print" => {
                i += 1;
            }
            other => {
                eprint_proc(&format!("find: unknown predicate `{other}'\n"));
                unsupported(&format!("find predicate {other}"));
                return 1;
            }
        }
    }
    let mut status = 0;
    let mut buf: Vec<u8> = Vec::new();
    for s in starts {
        find_walk(&s, &s, want_type, &fmt, print0, &mut buf, &mut status);
    }
    if out.write_all(&buf).is_err() {
        return 1;
    }
    status
}

fn find_walk(
    start: &str,
    path: &str,
    want: Option<char>,
    fmt: &Option<Vec<FmtPiece>>,
    print0: bool,
    buf: &mut Vec<u8>,
    status: &mut i32,
) {
    let meta = match sfs::symlink_metadata(path) {
        Ok(m) => m,
        Err(e) => {
            eprint_proc(&format!("find: '{path}': {}\n", os_msg(&e)));
            *status = 1;
            return;
        }
    };
    let t = if meta.is_dir() {
        'd'
    } else if meta.is_file() {
        'f'
    } else {
        'l'
    };
    if want.map_or(true, |w| w == t) {
        match fmt {
            Some(pieces) => {
                for p in pieces {
                    match p {
                        FmtPiece::Lit(l) => buf.extend_from_slice(l),
                        FmtPiece::Size => buf.extend_from_slice(meta.len().to_string().as_bytes()),
                        FmtPiece::Path => buf.extend_from_slice(path.as_bytes()),
                        FmtPiece::RelPath => {
                            let rel = path.strip_prefix(start).unwrap_or(path);
                            buf.extend_from_slice(rel.strip_prefix('/').unwrap_or(rel).as_bytes());
                        }
                        FmtPiece::Base => {
                            buf.extend_from_slice(path.rsplit('/').next().unwrap_or(path).as_bytes())
                        }
                        FmtPiece::MtimeAt => {
                            let d = meta
                                .modified()
                                .ok()
                                .and_then(|t| t.duration_since(UNIX_EPOCH).ok())
                                .unwrap_or_default();
                            buf.extend_from_slice(
                                format!("{}.{:09}0", d.as_secs(), d.subsec_nanos()).as_bytes(),
                            );
                        }
                    }
                }
            }
            None => {
                buf.extend_from_slice(path.as_bytes());
                buf.push(if print0 { 0 } else { b'\n' });
            }
        }
    }
    if t == 'd' {
        match sfs::read_dir(path) {
            Ok(rd) => {
                for e in rd.flatten() {
                    let name = e.file_name().to_string_lossy().into_owned();
                    let child = format!("{}/{}", path.trim_end_matches('/'), name);
                    find_walk(start, &child, want, fmt, print0, buf, status);
                }
            }
            Err(e) => {
                eprint_proc(&format!("find: '{path}': {}\n", os_msg(&e)));
                *status = 1;
            }
        }
    }
}

fn cmd_xargs(args: &[String], inp: &mut In, out: &mut Out) -> i32 {
    let mut delim: u8 = b' ';
    let mut whitespace = true;
    let mut no_run_if_empty = false;
    let mut i = 0;
    while i < args.len() {
        match args[i].as_str() {
            "-0" | "--null" => {
                delim = 0;
                whitespace = false;
                i += 1;
            }
            "-r" | "--no-run-if-empty" => {
                no_run_if_empty = true;
                i += 1;
            }
            "-d" => {
                let d = args.get(i + 1).cloned().unwrap_or_default();
                delim = match d.as_str() {
                    "\\n" => b'\n',
                    "\\0" => 0,
                    "\\t" => b'\t',
                    s if s.len() == 1 => s.as_bytes()[0],
                    _ => {
                        eprint_proc("xargs: Invalid input delimiter specification\n");
                        return 1;
                    }
                };
                whitespace = false;
                i += 2;
            }
            s if s.starts_with("-d") && s.len() > 2 => {
                let d = &s[2..];
                delim = match d {
                    "\\n" => b'\n',
                    "\\0" => 0,
                    x if x.len() == 1 => x.as_bytes()[0],
                    _ => return 1,
                };
                whitespace = false;
                i += 1;
            }
            _ => break,
        }
    }
    let cmd: Vec<String> = if i < args.len() {
        args[i..].to_vec()
    } else {
        vec!["echo".into()]
    };
    let data = match inp.read_all() {
        Ok(d) => d,
        Err(_) => return 1,
    };
    let mut items: Vec<String> = Vec::new();
    if whitespace {
        for w in String::from_utf8_lossy(&data).split_whitespace() {
            items.push(w.to_string());
        }
    } else {
        let mut parts: Vec<&[u8]> = data.split(|b| *b == delim).collect();
        if parts.last().map_or(false, |l| l.is_empty()) {
            parts.pop();
        }
        for p in parts {
            items.push(String::from_utf8_lossy(p).into_owned());
        }
    }
    if items.is_empty() && no_run_if_empty {
        return 0;
    }
    let mut full = cmd[1..].to_vec();
    full.extend(items);
    let mut nul_in = In::Proc;
    let st = match cmd[0].as_str() {
        // the child's stdin is /dev/null under xargs
        "mkdir" => cmd_mkdir(&full),
        "rm" => cmd_rm(&full),
        "touch" => cmd_touch(&full),
        "echo" => {
            let _ = out.write_all(format!("{}\n", full.join(" ")).as_bytes());
            0
        }
        "cat" => {
            if full.is_empty() {
                0
            } else {
                cmd_cat(&full, &mut nul_in, out)
            }
        }
        other => {
            eprint_proc(&format!("xargs: {other}: No such file or directory\n"));
            return 127;
        }
    };
    match st {
        0 => 0,
        126 | 127 => st,
        _ => 123,
    }
}

fn cmd_mkdir(args: &[String]) -> i32 {
    let mut parents = false;
    let mut ops = Vec::new();
    let mut end = false;
    for a in args {
        if !end && a == "--" {
            end = true;
        } else if !end && a.starts_with('-') && a.len() > 1 {
            if a.contains('p') {
                parents = true;
            }
        } else {
            ops.push(a.clone());
        }
    }
    if ops.is_empty() {
        eprint_proc("mkdir: missing operand\n");
        return 1;
    }
    let mut status = 0;
    for d in ops {
        let r = if parents {
            sfs::create_dir_all(&d)
        } else {
            sfs::create_dir(&d)
        };
        if let Err(e) = r {
            eprint_proc(&format!("mkdir: cannot create directory '{d}': {}\n", os_msg(&e)));
            status = 1;
        }
    }
    status
}

fn cmd_cat(args: &[String], inp: &mut In, out: &mut Out) -> i32 {
    let files: Vec<&String> = args.iter().filter(|a| *a == "-" || !a.starts_with('-') || a.len() == 1).collect();
    let mut status = 0;
    let mut buf = vec![0u8; 131_072];
    if files.is_empty() {
        loop {
            match inp.read(&mut buf) {
                Ok(0) => break,
                Ok(n) => {
                    if out.write_all(&buf[..n]).is_err() {
                        eprint_proc("cat: write error\n");
                        return 1;
                    }
                }
                Err(_) => {
                    eprint_proc("cat: -: Input/output error\n");
                    return 1;
                }
            }
        }
        return 0;
    }
    for f in files {
        match sfs::File::open(f) {
            Ok(mut fh) => {
                if fh.metadata().map(|m| m.is_dir()).unwrap_or(false) {
                    eprint_proc(&format!("cat: {f}: Is a directory\n"));
                    status = 1;
                    continue;
                }
                loop {
                    match fh.read(&mut buf) {
                        Ok(0) => break,
                        Ok(n) => {
                            if out.write_all(&buf[..n]).is_err() {
                                eprint_proc("cat: write error: Broken pipe\n");
                                return 1;
                            }
                        }
                        Err(e) => {
                            eprint_proc(&format!("cat: {f}: {}\n", os_msg(&e)));
                            status = 1;
                            break;
                        }
                    }
                }
            }
            Err(e) => {
                eprint_proc(&format!("cat: {f}: {}\n", os_msg(&e)));
                status = 1;
            }
        }
    }
    status
}

fn split_opts(args: &[String]) -> (String, Vec<String>) {
    let mut opts = String::new();
    let mut ops = Vec::new();
    let mut end = false;
    for a in args {
        if !end && a == "--" {
            end = true;
        } else if !end && a.starts_with('-') && a.len() > 1 {
            opts.push_str(&a[1..]);
        } else {
            ops.push(a.clone());
        }
    }
    (opts, ops)
}

fn cmd_mv(args: &[String]) -> i32 {
    let (opts, ops) = split_opts(args);
    if ops.len() < 2 {
        eprint_proc("mv: missing file operand\n");
        return 1;
    }
    let dst = ops.last().unwrap().clone();
    let mut dst_is_dir = sfs::metadata(&dst).map(|m| m.is_dir()).unwrap_or(false);
    if opts.contains('T') {
        // --no-target-directory: treat DEST as a normal file
        if ops.len() > 2 {
            eprint_proc(&format!("mv: extra operand '{}'\n", ops[2]));
            return 1;
        }
        if dst_is_dir && !sfs::metadata(&ops[0]).map(|m| m.is_dir()).unwrap_or(false) {
            eprint_proc(&format!("mv: cannot overwrite directory '{dst}' with non-directory\n"));
            return 1;
        }
        dst_is_dir = false;
    }
    if ops.len() > 2 && !dst_is_dir {
        eprint_proc(&format!("mv: target '{dst}' is not a directory\n"));
        return 1;
    }
    let mut status = 0;
    for src in &ops[..ops.len() - 1] {
        let target = if dst_is_dir {
            format!(
                "{}/{}",
                dst.trim_end_matches('/'),
                src.trim_end_matches('/').rsplit('/').next().unwrap_or(src)
            )
        } else {
            dst.clone()
        };
        if let Err(e) = sfs::rename(src, &target) {
            eprint_proc(&format!("mv: cannot move '{src}' to '{target}': {}\n", os_msg(&e)));
            status = 1;
        }
    }
    status
}

fn cmd_rm(args: &[String]) -> i32 {
    let (opts, ops) = split_opts(args);
    let force = opts.contains('f');
    let recursive = opts.contains('r') || opts.contains('R');
    if ops.is_empty() {
        if force {
            return 0;
        }
        eprint_proc("rm: missing operand\n");
        return 1;
    }
    let mut status = 0;
    for f in ops {
        match sfs::symlink_metadata(&f) {
            Err(e) => {
                // GNU rm -f ignores nonexistent operands, which includes ENOTDIR (a path
                // component is a regular file) — calibrated against the real tool
                if !(force && (e.kind() == std::io::ErrorKind::NotFound || e.raw_os_error() == Some(20))) {
                    eprint_proc(&format!("rm: cannot remove '{f}': {}\n", os_msg(&e)));
                    status = 1;
                }
            }
            Ok(m) if m.is_dir() => {
                if recursive {
                    if let Err(e) = sfs::remove_dir_all(&f) {
                        eprint_proc(&format!("rm: cannot remove '{f}': {}\n", os_msg(&e)));
                        status = 1;
                    }
                } else {
                    eprint_proc(&format!("rm: cannot remove '{f}': Is a directory\n"));
                    status = 1;
                }
            }
            Ok(_) => {
                if let Err(e) = sfs::remove_file(&f) {
                    eprint_proc(&format!("rm: cannot remove '{f}': {}\n", os_msg(&e)));
                    status = 1;
                }
            }
        }
    }
    status
}

/// Seconds since the epoch of the civil time CCYYMMDDhhmm[.SS] taken as UTC.
fn touch_stamp_to_epoch(st: &str) -> Option<i64> {
    let (main, ss) = match st.split_once('.') {
        Some((m, s)) => (m, s.parse::<i64>().ok()?),
        None => (st, 0),
    };
    if !main.chars().all(|c| c.is_ascii_digit()) {
        return None;
    }
    let (y, rest) = match main.len() {
        12 => (main[..4].parse::<i64>().ok()?, &main[4..]),
        10 => {
            let yy = main[..2].parse::<i64>().ok()?;
            (if yy >= 69 { 1900 + yy } else { 2000 + yy }, &main[2..])
        }
        _ => return None,
    };
    let (mo, d, h, mi) = (rest[0..2].parse::<i64>().ok()?, rest[2..4].parse::<i64>().ok()?, rest[4..6].parse::<i64>().ok()?, rest[6..8].parse::<i64>().ok()?);
    if !(1..=12).contains(&mo) || !(1..=31).contains(&d) || h > 23 || mi > 59 || ss > 61 {
        return None;
    }
    // days from civil (Howard Hinnant)
    let y2 = if mo <= 2 { y - 1 } else { y };
    let era = if y2 >= 0 { y2 } else { y2 - 399 } / 400;
    let yoe = y2 - era * 400;
    let doy = (153 * (if mo > 2 { mo - 3 } else { mo + 9 }) + 2) / 5 + d - 1;
    let doe = yoe * 365 + yoe / 4 - yoe / 100 + doy;
    let days = era * 146_097 + doe - 719_468;
    Some(days * 86_400 + h * 3600 + mi * 60 + ss)
}

/// POSIX TZ `NAME[+-]hh[:mm]`: seconds to ADD to local civil time to get UTC.
fn tz_offset_west_secs(tz: &str) -> i64 {
    let t = tz.trim_start_matches(|c: char| c.is_ascii_alphabetic());
    if t.is_empty() {
        return 0;
    }
    let (sign, t) = match t.strip_prefix('-') {
        Some(r) => (-1, r),
        None => (1, t.strip_prefix('+').unwrap_or(t)),
    };
    let (h, m) = match t.split_once(':') {
        Some((h, m)) => (h.parse::<i64>().unwrap_or(0), m.parse::<i64>().unwrap_or(0)),
        None => (t.parse::<i64>().unwrap_or(0), 0),
    };
    sign * (h * 3600 + m * 60)
}

fn cmd_touch(args: &[String]) -> i32 {
    let mut date: Option<String> = None;
    let mut stamp: Option<String> = None;
    let mut files = Vec::new();
    let mut i = 0;
    let mut end = false;
    while i < args.len() {
        let a = &args[i];
        if !end && a == "--" {
            end = true;
            i += 1;
        } else if !end && a == "-d" {
            date = args.get(i + 1).cloned();
            i += 2;
        } else if !end && a.starts_with("-d") && a.len() > 2 {
            date = Some(a[2..].to_string());
            i += 1;
        } else if !end && a.starts_with("--date=") {
            date = Some(a[7..].to_string());
            i += 1;
        } else if !end && a == "-t" {
            stamp = args.get(i + 1).cloned();
            i += 2;
        } else if !end && matches!(a.as_str(), "-c" | "-a" | "-m" | "--no-create") {
            i += 1;
        } else if !end && a.starts_with('-') && a.len() > 1 {
            unsupported(&format!("touch option {a}"));
            i += 1;
        } else {
            files.push(a.clone());
            i += 1;
        }
    }
    if let Some(st) = &stamp {
        // POSIX `-t [[CC]YY]MMDDhhmm[.SS]`, read in the time zone of THIS shell (env TZ, POSIX
        // form NAME[+-]hh[:mm]: "EST5" is five hours WEST of UTC; unset / UTC0 = UTC)
        match touch_stamp_to_epoch(st) {
            Some(local) => {
                let tz = peek(|s, pid| s.procs[pid as usize].env.get("TZ").cloned()).unwrap_or_default();
                let secs = local + tz_offset_west_secs(&tz);
                if secs >= 0 {
                    date = Some(format!("@{secs}"));
                } else {
                    eprint_proc(&format!("touch: invalid date format '{st}'\n"));
                    return 1;
                }
            }
            None => {
                eprint_proc(&format!("touch: invalid date format '{st}'\n"));
                return 1;
            }
        }
    }
    let when = match &date {
        None => None,
        Some(d) => match d.strip_prefix('@') {
            Some(n) => {
                let (secs, frac) = match n.split_once('.') {
                    Some((s, f)) => (s, f),
                    None => (n, ""),
                };
                match secs.parse::<i64>() {
                    Ok(s) if s >= 0 => {
                        let mut ns = 0u32;
                        let mut scale = 100_000_000u32;
                        for c in frac.chars().take(9) {
                            ns += c.to_digit(10).unwrap_or(0) * scale;
                            scale /= 10;
                        }
                        Some(UNIX_EPOCH + Duration::new(s as u64, ns))
                    }
                    Ok(_) => Some(UNIX_EPOCH),
                    Err(_) => {
                        eprint_proc(&format!("touch: invalid date format '{d}'\n"));
                        return 1;
                    }
                }
            }
            None => {
                eprint_proc(&format!("touch: invalid date format '{d}' (only @N is modelled)\n"));
                return 1;
            }
        },
    };
    if files.is_empty() {
        eprint_proc("touch: missing file operand\n");
        return 1;
    }
    let mut status = 0;
    for f in files {
        let opened = sfs::OpenOptions::new().write(true).create(true).open(&f);
        match opened {
            Ok(fh) => {
                let t = when.unwrap_or_else(|| {
                    UNIX_EPOCH + Duration::from_nanos(peek(|st, _| st.world.clock_ns))
                });
                if let Err(e) = fh.set_modified(t) {
                    eprint_proc(&format!("touch: setting times of '{f}': {}\n", os_msg(&e)));
                    status = 1;
                }
            }
            Err(e) => {
                // a directory can be touched too
                if sfs::metadata(&f).map(|m| m.is_dir()).unwrap_or(false) {
                    continue;
                }
                eprint_proc(&format!("touch: cannot touch '{f}': {}\n", os_msg(&e)));
                status = 1;
            }
        }
    }
    status
}

fn cmd_test(name: &str, args: &[String]) -> i32 {
    let mut a: Vec<&str> = args.iter().map(String::as_str).collect();
    if name == "[" {
        if a.last() != Some(&"]") {
            eprint_proc("bash: [: missing `]'\n");
            return 2;
        }
        a.pop();
    }
    let truth = match a.as_slice() {
        ["-e", p] => sfs::metadata(p).is_ok(),
        ["-f", p] => sfs::metadata(p).map(|m| m.is_file()).unwrap_or(false),
        ["-d", p] => sfs::metadata(p).map(|m| m.is_dir()).unwrap_or(false),
        ["-s", p] => sfs::metadata(p).map(|m| m.len() > 0).unwrap_or(false),
        ["-n", s] => !s.is_empty(),
        ["-z", s] => s.is_empty(),
        [x, "=", y] => x == y,
        [x, "!=", y] => x != y,
        [x, "-eq", y] => match (x.trim().parse::<i64>(), y.trim().parse::<i64>()) {
            (Ok(a), Ok(b)) => a == b,
            _ => {
                eprint_proc("bash: test: integer expression expected\n");
                return 2;
            }
        },
        [x, "-ne", y] => x.trim().parse::<i64>().ok() != y.trim().parse::<i64>().ok(),
        [x] => !x.is_empty(),
        [] => false,
        _ => {
            eprint_proc("sim-sh: test expression not modelled\n");
            return 2;
        }
    };
    if truth {
        0
    } else {
        1
    }
}

#[cfg(test)]
mod tests {
    use super::*;
    #[test]
    fn tok_ansi_c() {
        let t = tokenize("cat > $'a\\'b c.copia-tmp' && mv -f $'x\\\\y' z").unwrap();
        assert_eq!(t[0], Tok::Word(vec![Part::Lit("cat".into())]));
        assert_eq!(t[2], Tok::Word(vec![Part::Lit("a'b c.copia-tmp".into())]));
        assert_eq!(t[6], Tok::Word(vec![Part::Lit("x\\y".into())]));
    }
}


/// `-X N` or `-XN` / `--long N` or `--long=N` for the two size commands below
fn size_opt(args: &[String], short: &str, long: &str) -> (Option<String>, Vec<String>) {
    let mut val = None;
    let mut rest = Vec::new();
    let mut i = 0;
    while i < args.len() {
        let a = &args[i];
        if a == short || a == long {
            val = args.get(i + 1).cloned();
            i += 2;
            continue;
        }
        if let Some(v) = a.strip_prefix(&format!("{long}=")) {
            val = Some(v.to_string());
        } else if a.starts_with(short) && a.len() > short.len() && !a.starts_with("--") {
            val = Some(a[short.len()..].to_string());
        } else if a == "--" {
            rest.extend(args[i + 1..].iter().cloned());
            break;
        } else {
            rest.push(a.clone());
        }
        i += 1;
    }
    (val, rest)
}

/// util-linux `fallocate -l N FILE`: make sure FILE has at least N bytes allocated (extends it
/// with zeros, never shrinks it); N must be a positive decimal byte count here.
fn cmd_fallocate(args: &[String]) -> i32 {
    let (len, files) = size_opt(args, "-l", "--length");
    let Some(n) = len.as_deref().and_then(|v| v.parse::<u64>().ok()) else {
        eprint_proc("fallocate: no length argument specified\n");
        return 1;
    };
    if n == 0 {
        eprint_proc("fallocate: invalid length value specified\n");
        return 1;
    }
    let Some(f) = files.first() else {
        eprint_proc("fallocate: no filename specified\n");
        return 1;
    };
    match sfs::OpenOptions::new().read(true).write(true).create(true).open(f) {
        Ok(fh) => {
            let cur = fh.metadata().map(|m| m.len()).unwrap_or(0);
            if cur < n {
                if let Err(e) = fh.set_len(n) {
                    eprint_proc(&format!("fallocate: fallocate failed: {}\n", os_msg(&e)));
                    return 1;
                }
            }
            0
        }
        Err(e) => {
            eprint_proc(&format!("fallocate: cannot open {f}: {}\n", os_msg(&e)));
            1
        }
    }
}

/// GNU `truncate -s N FILE...`: set the size (creating the file), N a plain decimal byte count.
fn cmd_truncate(args: &[String]) -> i32 {
    let (len, files) = size_opt(args, "-s", "--size");
    let Some(n) = len.as_deref().and_then(|v| v.parse::<u64>().ok()) else {
        eprint_proc("truncate: you must specify either '--size' or '--reference'\n");
        unsupported("truncate with a relative or suffixed size");
        return 1;
    };
    let mut st = 0;
    for f in &files {
        match sfs::OpenOptions::new().write(true).create(true).open(f) {
            Ok(fh) => {
                if let Err(e) = fh.set_len(n) {
                    eprint_proc(&format!("truncate: failed to truncate '{f}' at {n} bytes: {}\n", os_msg(&e)));
                    st = 1;
                }
            }
            Err(e) => {
                eprint_proc(&format!("truncate: cannot open '{f}' for writing: {}\n", os_msg(&e)));
                st = 1;
            }
        }
    }
    st
}
