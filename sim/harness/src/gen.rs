//! Seeded generators for (basis, source) pairs with the structure the properties name.

use copia_simworld::rng::Rng;
use serde::{Deserialize, Serialize};

#[derive(Clone, Debug, Serialize, Deserialize)]
pub struct DataGen {
    pub seed: u64,
    /// 0 random, 1 low-entropy (repeated blocks), 2 edits of basis, 3 weak-collision
    /// blocks, 4 identical, 5 shifted (unaligned matches after many slides), 6 high-sum 0xFF
    pub kind: u8,
    pub basis_blocks: u32,
    pub basis_tail: u32,
    pub edits: u32,
    pub src_extra: u32,
}

pub const CLI_BLOCK_SIZES: [usize; 8] = [512, 1024, 2048, 4096, 8192, 16384, 32768, 65536];

impl DataGen {
    pub fn random(rng: &mut Rng, bs: usize, max_bytes: usize) -> Self {
        let max_blocks = (max_bytes / bs.max(1)).clamp(1, 40) as u64;
        let basis_blocks = match rng.below(10) {
            0 => 0,
            1 => 1,
            _ => rng.range(0, max_blocks) as u32,
        };
        let basis_tail = match rng.below(4) {
            0 => 0,
            1 => 1,
            2 => (bs as u32).saturating_sub(1),
            _ => rng.below(bs as u64) as u32,
        };
        Self {
            seed: rng.next_u64(),
            kind: rng.below(8) as u8,
            basis_blocks,
            basis_tail,
            edits: rng.range(0, 4) as u32,
            src_extra: match rng.below(3) {
                0 => 0,
                1 => rng.below(bs as u64 + 1) as u32,
                _ => rng.below(3 * bs as u64 + 1) as u32,
            },
        }
    }

    /// Build (basis, source).
    pub fn build(&self, bs: usize) -> (Vec<u8>, Vec<u8>) {
        let mut r = Rng::new(self.seed);
        let blen = self.basis_blocks as usize * bs + self.basis_tail as usize;
        let mut basis = vec![0u8; blen];
        match self.kind {
            1 => {
                // few distinct blocks repeated
                let nd = 1 + r.usize_below(3);
                let protos: Vec<Vec<u8>> = (0..nd).map(|_| r.bytes(bs)).collect();
                for (i, c) in basis.chunks_mut(bs).enumerate() {
                    let p = &protos[(i * 7 + r.usize_below(2)) % nd];
                    c.copy_from_slice(&p[..c.len()]);
                }
            }
            6 => {
                for b in basis.iter_mut() {
                    *b = if r.below(50) == 0 { r.below(256) as u8 } else { 0xFF };
                }
            }
            _ => r.fill(&mut basis),
        }
        let mut source = basis.clone();
        match self.kind {
            0 => {
                let n = (blen as u64 + u64::from(self.src_extra)).min(1 << 22) as usize;
                source = r.bytes(n);
                // sprinkle a few aligned basis blocks in
                if blen >= bs && n >= bs {
                    for _ in 0..r.usize_below(3) {
                        let bi = r.usize_below(blen / bs);
                        let at = r.usize_below(n - bs + 1);
                        source[at..at + bs].copy_from_slice(&basis[bi * bs..bi * bs + bs]);
                    }
                }
            }
            3 => {
                // weak-collision: +1,-1,-1,+1 on four consecutive bytes keeps both sums
                let nb = blen / bs.max(1);
                for _ in 0..(1 + self.edits) {
                    if nb == 0 || bs < 4 {
                        break;
                    }
                    let bi = r.usize_below(nb);
                    let off = bi * bs + r.usize_below(bs - 3);
                    let s = &mut source[off..off + 4];
                    if s[0] < 255 && s[1] > 0 && s[2] > 0 && s[3] < 255 {
                        s[0] += 1;
                        s[1] -= 1;
                        s[2] -= 1;
                        s[3] += 1;
                    }
                }
            }
            4 => {}
            7 => {
                // the source is a REARRANGEMENT of the basis's own blocks (two blocks swapped, or one
                // block overwritten with a copy of another): same size, no new byte anywhere — the
                // delta is all copies, yet the files differ
                let nb = blen / bs.max(1);
                if nb >= 2 {
                    let (i, mut j) = (r.usize_below(nb), r.usize_below(nb));
                    if i == j {
                        j = (i + 1) % nb;
                    }
                    let (a, b) = (basis[i * bs..i * bs + bs].to_vec(), basis[j * bs..j * bs + bs].to_vec());
                    source[i * bs..i * bs + bs].copy_from_slice(&b);
                    if r.coin() {
                        source[j * bs..j * bs + bs].copy_from_slice(&a);
                    }
                }
            }
            5 => {
                // shift by k bytes so matches are found only after k slides
                let k = match r.below(4) {
                    0 => 1,
                    1 => bs.saturating_sub(1).max(1),
                    2 => 5000 + r.usize_below(3000),
                    _ => 1 + r.usize_below(bs.max(2) * 2),
                };
                let mut s = r.bytes(k);
                s.extend_from_slice(&basis);
                source = s;
            }
            _ => {
                for _ in 0..self.edits.max(1) {
                    let len = source.len();
                    match r.below(3) {
                        0 => {
                            let at = r.usize_below(len + 1);
                            let n = 1 + r.usize_below(bs.min(300));
                            let ins = r.bytes(n);
                            source.splice(at..at, ins);
                        }
                        1 if len > 0 => {
                            let at = r.usize_below(len);
                            let n = (1 + r.usize_below(bs.min(300))).min(len - at);
                            source.drain(at..at + n);
                        }
                        _ if len > 0 => {
                            let at = r.usize_below(len);
                            let n = (1 + r.usize_below(64)).min(len - at);
                            let rep = r.bytes(n);
                            source[at..at + n].copy_from_slice(&rep);
                        }
                        _ => {}
                    }
                }
            }
        }
        if self.kind != 0 && self.kind != 4 && self.src_extra > 0 && r.coin() {
            let extra = r.bytes(self.src_extra as usize);
            source.extend_from_slice(&extra);
        }
        (basis, source)
    }

    pub fn shrink(&self) -> Vec<DataGen> {
        let mut out = Vec::new();
        if self.basis_blocks > 0 {
            out.push(DataGen {
                basis_blocks: self.basis_blocks / 2,
                ..self.clone()
            });
            out.push(DataGen {
                basis_blocks: self.basis_blocks - 1,
                ..self.clone()
            });
        }
        if self.basis_tail > 0 {
            out.push(DataGen {
                basis_tail: 0,
                ..self.clone()
            });
        }
        if self.src_extra > 0 {
            out.push(DataGen {
                src_extra: 0,
                ..self.clone()
            });
        }
        if self.edits > 0 {
            out.push(DataGen {
                edits: self.edits - 1,
                ..self.clone()
            });
        }
        out
    }
}

pub fn hex(b: &[u8]) -> String {
    let mut s = String::with_capacity(b.len() * 2);
    for x in b {
        s.push_str(&format!("{x:02x}"));
    }
    s
}

pub fn fnv(parts: &[u64]) -> u64 {
    let mut h = 0xcbf2_9ce4_8422_2325u64;
    for p in parts {
        for b in p.to_le_bytes() {
            h = (h ^ u64::from(b)).wrapping_mul(0x100_0000_01B3);
        }
    }
    h
}

pub fn fnv_bytes(b: &[u8]) -> u64 {
    let mut h = 0xcbf2_9ce4_8422_2325u64;
    for x in b {
        h = (h ^ u64::from(*x)).wrapping_mul(0x100_0000_01B3);
    }
    h
}
