//! Shared helpers: program resolver (real copia, stubs), one-process runs, tree utilities.

use copia_simworld::kernel::*;
use copia_simworld::shim::tokio_rt;
use std::collections::BTreeMap;
use std::sync::Arc;

pub fn copia_program(argv: Vec<String>) -> ProgramFn {
    Box::new(move || tokio_rt::block_on(crate::copia_main::verif_entry::run_cli(argv)))
}

pub fn resolver() -> Resolver {
    Arc::new(|req: &SpawnReq| -> Option<ProgramFn> {
        let base = req.program.rsplit('/').next().unwrap_or("");
        match base {
            "copia" => {
                let mut argv = vec!["copia".to_string()];
                argv.extend(req.args.iter().cloned());
                Some(copia_program(argv))
            }
            "hostname" => {
                let name = req
                    .env
                    .get("SIM_HOSTNAME")
                    .cloned()
                    .unwrap_or_else(|| "simhost".to_string());
                Some(Box::new(move || {
                    copia_simworld::println!("{name}");
                    0
                }))
            }
            "ssh" => Some(crate::stubs::ssh_program(req.args.clone())),
            _ => None,
        }
    })
}

pub fn env_of(pairs: &[(&str, &str)]) -> BTreeMap<String, String> {
    pairs
        .iter()
        .map(|(k, v)| ((*k).to_string(), (*v).to_string()))
        .collect()
}

pub fn top(role: &str, host: &str, argv: &[String], env: BTreeMap<String, String>) -> TopSpawn {
    TopSpawn {
        role: role.to_string(),
        host: host.to_string(),
        argv: argv.to_vec(),
        env,
        cwd: "/".to_string(),
        stdin: Fd::Null,
        stdout: None,
        stderr: None,
        program: None,
    }
}

/// Run one top-level copia command to completion in `world`.
pub fn run_one(
    world: World,
    cfg: RunCfg,
    role: &str,
    host: &str,
    argv: &[String],
    env: BTreeMap<String, String>,
) -> Outcome {
    let sim = Sim::new(world, cfg, resolver());
    sim.spawn(top(role, host, argv, env));
    sim.run()
}

pub fn sv(xs: &[&str]) -> Vec<String> {
    xs.iter().map(|s| (*s).to_string()).collect()
}

pub type Tree = BTreeMap<String, Vec<u8>>;

pub fn tree_bytes(w: &World, host: &str, root: &str) -> Tree {
    w.fs(host)
        .tree(root)
        .into_iter()
        .map(|(k, (b, _))| (k, b))
        .collect()
}

pub fn is_staging(name: &str) -> bool {
    name.ends_with(".copia-tmp")
}

pub fn strip_staging(t: &Tree) -> Tree {
    t.iter()
        .filter(|(k, _)| !is_staging(k))
        .map(|(k, v)| (k.clone(), v.clone()))
        .collect()
}

pub fn b3(b: &[u8]) -> [u8; 32] {
    *blake3::hash(b).as_bytes()
}

pub fn short_hex(h: &[u8; 32]) -> String {
    h[..6].iter().map(|b| format!("{b:02x}")).collect()
}

pub fn smoke(mode: &str) -> i32 {
    if mode == "patch" {
        use copia::Sync as _;
        let basis = vec![7u8; 5000];
        let mut source = basis.clone();
        source.extend_from_slice(b"tail");
        let sig = copia::Signature::generate(&mut &basis[..], 512).unwrap();
        let delta = copia::CopiaSync::new().delta(&source[..], &sig).unwrap();
        let mut w = World::new();
        let t = w.clock_ns;
        w.host("local").put_file("/w/basis", &basis, t);
        w.host("local").put_file("/w/d.delta", &bincode::serialize(&delta).unwrap(), t);
        w.host("local").mkdir_p("/home/u", t);
        let out = run_one(w, RunCfg::default(), "copia", "local", &sv(&["copia", "patch", "/w/basis", "/w/d.delta", "-o", "/w/out"]), env_of(&[("HOME", "/home/u")]));
        for r in &out.trace {
            println!("{} p{} {:?} {} ok={} n={}", r.seq, r.pid, r.kind, r.path, r.ok, r.bytes);
        }
        println!("exit={:?} out len={:?}", out.procs[0].exit, out.world.fs("local").get_file("/w/out").map(|b| b.len()));
        return 0;
    }
    let mut w = World::new();
    let t = w.clock_ns - 5_000_000_000;
    for h in ["local", "remote"] {
        w.host(h).mkdir_p("/home/u", t);
        w.host(h).mkdir_p(crate::stubs::REMOTE_HOME, t);
    }
    let (src_host, dst_host) = match mode {
        "push" => ("local", "remote"),
        "pull" => ("remote", "local"),
        _ => ("local", "local"),
    };
    w.host(src_host).put_file("/data/src/a.txt", b"alpha", t);
    w.host(src_host).put_file("/data/src/sub/b q'x.bin", &vec![7u8; 300_000], t + 500);
    w.host(src_host).put_file("/data/src/sub/deep/c", b"", t);
    w.host(dst_host).put_file("/data/dst/stale", b"old", t);
    w.host(dst_host).put_file("/data/dst/a.txt", b"ALPHA", t);
    let (s, d) = match mode {
        "push" => ("/data/src".to_string(), "remote:/data/dst".to_string()),
        "pull" => ("remote:/data/src".to_string(), "/data/dst".to_string()),
        _ => ("/data/src".to_string(), "/data/dst".to_string()),
    };
    let mut cfg = RunCfg::default();
    cfg.seed = 7;
    let out = run_one(w, cfg, "sync", "local", &sv(&["copia", "sync", "-r", &s, &d, "--delete", "--jobs", "2"]), env_of(&[("HOME", "/home/u")]));
    for p in &out.procs {
        println!("{} {:?} exit={:?}\n--stdout--\n{}--stderr--\n{}", p.role, p.argv, p.exit, p.out_str(), p.err_str());
    }
    for (k, (b, m)) in out.world.fs(dst_host).tree("/data/dst") {
        println!("dst {k:?} {} bytes mtime {}", b.len(), m);
    }
    println!("steps={} deadlock={} budget={}", out.stats.steps, out.deadlock, out.budget_exceeded);
    0
}
