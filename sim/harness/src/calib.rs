//! Stub conformance calibration (validates stubs; decides no property).
//! Seeded command strings of the shapes copia sends — with hostile names — are executed by
//! real `bash -c` on a real scratch tree and by the shell stub on the same tree in SimFs;
//! exit status, stdout bytes and the resulting tree (paths, bytes, whole-second mtimes of
//! touched files) must agree. A mismatch is a harness error (exit 2), never a VIOLATION.

use crate::common::*;
use copia_simworld::kernel::*;
use copia_simworld::rng::Rng;
use std::collections::BTreeMap;
use std::io::Write;
use std::path::Path;
use std::process::{Command, Stdio};
use std::time::{Duration, UNIX_EPOCH};

const NAMES: &[&str] = &["a", "b.txt", "sp ace", "q'uo", "d\"q", "back\\sl", "$dol", "st*r", "qu?", "[br]", "tab\there", "-dash", ".hid", "ünï", "new\nline", "x.tmp", "C:\\temp\\new", "o\\101x\\x41", "tr\\", "b\\'q", "u\\u00e9\\cA"];

fn esc(s: &str) -> String {
    s.replace('\\', "\\\\").replace('\'', "\\'")
}

struct Case {
    cmd: String,
    stdin: Vec<u8>,
    files: Vec<(String, Vec<u8>, u64, u32)>, // rel path, bytes, mtime secs, nanos
    dirs: Vec<String>,
    ignore_stdout_order: bool,
}

fn gen_case(r: &mut Rng, root: &str) -> Case {
    let mut files = Vec::new();
    let mut dirs = Vec::new();
    let nfiles = r.urange(0, 5);
    let mut used = std::collections::BTreeSet::new();
    for _ in 0..nfiles {
        let depth = r.urange(1, 3);
        let comps: Vec<&str> = (0..depth).map(|_| *r.pick(NAMES)).collect();
        let p = comps.join("/");
        if used.iter().any(|q: &String| q.starts_with(&format!("{p}/")) || p.starts_with(&format!("{q}/")) || *q == p) {
            continue;
        }
        used.insert(p.clone());
        let n = r.urange(0, 40);
        files.push((p, r.bytes(n), 1_500_000_000 + r.below(300_000_000), *r.pick(&[0u32, 1, 500_000_000, 999_999_999, 123_456_789])));
    }
    if r.coin() {
        dirs.push(format!("emptydir{}", r.below(3)));
    }
    let pick_path = |r: &mut Rng| -> String {
        if !files.is_empty() && r.below(3) > 0 {
            files[r.usize_below(files.len())].0.clone()
        } else {
            let depth = r.urange(1, 2);
            (0..depth).map(|_| *r.pick(NAMES)).collect::<Vec<_>>().join("/")
        }
    };
    let mut stdin = Vec::new();
    let mut ignore_order = false;
    let cmd = match r.below(12) {
        8 => {
            // preallocate-then-overwrite shapes: `:`, brace group with `||`, fallocate/truncate,
            // stderr to /dev/null, read-write redirection without truncation
            let dst = format!("{root}/{}", pick_path(r));
            let e = esc(&dst);
            let n = r.urange(0, 120);
            stdin = r.bytes(n);
            let size = if r.below(3) == 0 { n + r.urange(1, 40) } else { n };
            let claimed = if r.below(4) == 0 { size + 1 } else { size };
            let reserve = match r.below(4) {
                0 => String::new(),
                1 => format!(" && {{ fallocate -l {size} $'{e}.copia-tmp' 2>/dev/null || truncate -s {size} $'{e}.copia-tmp'; }}"),
                2 => format!(" && truncate -s {size} $'{e}.copia-tmp'"),
                _ => format!(" && {{ false || truncate --size={size} $'{e}.copia-tmp'; }}"),
            };
            format!(": > $'{e}.copia-tmp'{reserve} && cat 1<> $'{e}.copia-tmp' && test \"$(wc -c < $'{e}.copia-tmp')\" -eq {claimed} && mv -fT $'{e}.copia-tmp' $'{e}'")
        }
        9 => {
            // append, subshell with cd, grouping with `;`, status of a failing group
            let dst = format!("{root}/{}", pick_path(r));
            let e = esc(&dst);
            let n = r.urange(0, 60);
            stdin = r.bytes(n);
            match r.below(4) {
                0 => format!("cat >> $'{e}'"),
                1 => format!("( cd $'{}' && cat > $'{e}.copia-tmp' ) && mv -f $'{e}.copia-tmp' $'{e}'; test -f $'{e}'", esc(root)),
                2 => format!("{{ cat > $'{e}.copia-tmp'; test -d $'{e}'; }} || mv -fT $'{e}.copia-tmp' $'{e}'"),
                _ => format!("{{ cat > $'{e}.copia-tmp' && false; }} && mv -f $'{e}.copia-tmp' $'{e}' || rm -f -- $'{e}.copia-tmp'"),
            }
        }
        10 => {
            // pipelines and stderr plumbing
            let src = format!("{root}/{}", pick_path(r));
            let e = esc(&src);
            match r.below(4) {
                0 => format!("cat $'{e}' | wc -c"),
                1 => format!("cat $'{e}' 2>/dev/null | cat | wc -c"),
                // (the text of a diagnostic is not compared, so it is kept out of the count)
                2 => format!("{{ cat $'{e}' || echo gone; }} 2>/dev/null | wc -c > $'{}/count'; echo x 2>&1 | wc -c", esc(root)),
                _ => format!("cat $'{e}' > /dev/null 2>&1 && echo ok || echo missing"),
            }
        }
        11 => {
            // a closing brace as an ordinary argument, quoted braces, `echo` into a file
            let dst = format!("{root}/{}", pick_path(r));
            let e = esc(&dst);
            match r.below(3) {
                0 => format!("echo }} {{ > $'{e}'"),
                1 => format!("echo '{{' \"}}\" >> $'{e}'"),
                _ => format!("test -e $'{e}' && {{ echo yes; echo again; }} > $'{e}.flag' || {{ echo no; }}"),
            }
        }
        0 => {
            ignore_order = true;
            if r.below(3) == 0 {
                format!("find $'{}' -type f -printf '%s\\t%T@\\t%P\\0'", esc(root))
            } else {
                format!("cd $'{}' && find . -type f -printf '%s\\t%T@\\t%p\\0'", esc(root))
            }
        }
        1 => {
            for _ in 0..r.urange(1, 3) {
                stdin.extend_from_slice(format!("{root}/{}", pick_path(r)).as_bytes());
                stdin.push(0);
            }
            if r.below(3) == 0 {
                "xargs -0 mkdir -p".to_string()
            } else {
                // the staged, byte-counted directory list (sometimes a wrong count / a cut list)
                let t = format!("{}/.copia-dir-list.copia-tmp", esc(root));
                let n = if r.below(4) == 0 { stdin.len() + 1 } else { stdin.len() };
                if r.below(4) == 0 && stdin.len() > 2 {
                    let cut = 1 + r.usize_below(stdin.len() - 1);
                    stdin.truncate(cut);
                }
                format!("mkdir -p $'{}' && {{ cat > $'{t}' && test \"$(wc -c < $'{t}')\" -eq {n} && xargs -0 mkdir -p < $'{t}' && rm -f -- $'{t}'; }} || {{ rm -f -- $'{t}'; false; }}", esc(root))
            }
        }
        2 => {
            for _ in 0..r.urange(0, 3) {
                stdin.extend_from_slice(format!("{root}/{}", pick_path(r)).as_bytes());
                stdin.push(0);
            }
            match r.below(3) {
                0 => "xargs -0 rm -f --".to_string(),
                _ => {
                    // the staged, byte-counted delete list (sometimes with a wrong count, sometimes cut)
                    let t = format!("{}/.copia-delete-list.copia-tmp", esc(root));
                    let n = if r.below(4) == 0 { stdin.len() + 1 } else { stdin.len() };
                    if r.below(4) == 0 && stdin.len() > 2 {
                        let cut = 1 + r.usize_below(stdin.len() - 1);
                        stdin.truncate(cut);
                    }
                    if r.coin() {
                        format!("cat > $'{t}' && test \"$(wc -c < $'{t}')\" -eq {n} && xargs -0 rm -f -- < $'{t}'; rm -f -- $'{t}'")
                    } else {
                        format!("{{ cat > $'{t}' && test \"$(wc -c < $'{t}')\" -eq {n} && xargs -0 rm -f -- < $'{t}' && rm -f -- $'{t}'; }} || {{ rm -f -- $'{t}'; false; }}")
                    }
                }
            }
        }
        3 => {
            for _ in 0..r.urange(1, 3) {
                stdin.extend_from_slice(format!("{root}/{}", pick_path(r)).as_bytes());
                stdin.push(b'\n');
            }
            if r.coin() { "xargs -d '\\n' mkdir -p".to_string() } else { "xargs -d '\\n' rm -f --".to_string() }
        }
        4 | 5 => {
            let dst = format!("{root}/{}", pick_path(r));
            let n = r.urange(0, 200);
            stdin = r.bytes(n);
            let claimed = if r.below(4) == 0 { n + 1 } else { n };
            let t = 1_400_000_000 + r.below(400_000_000);
            let e = esc(&dst);
            let mv = if r.below(4) == 0 { "mv -f" } else { "mv -fT" };
            format!("cat > $'{e}.copia-tmp' && test \"$(wc -c < $'{e}.copia-tmp')\" -eq {claimed} && {mv} $'{e}.copia-tmp' $'{e}' && touch -d @{t} $'{e}'")
        }
        6 => format!("cat $'{}'", esc(&format!("{root}/{}", pick_path(r)))),
        _ => {
            let dst = format!("{root}/{}", pick_path(r));
            let e = esc(&dst);
            let n = r.urange(0, 50);
            stdin = r.bytes(n);
            format!("cat > $'{e}.copia-tmp' && mv -f $'{e}.copia-tmp' $'{e}'")
        }
    };
    // a directory in the way, sometimes
    if r.below(6) == 0 && !files.is_empty() {
        let (p, _, _, _) = files[0].clone();
        files.remove(0);
        dirs.push(p);
    }
    Case { cmd, stdin, files, dirs, ignore_stdout_order: ignore_order }
}

type TreeSnap = BTreeMap<String, (Option<Vec<u8>>, u64)>; // path -> (bytes or None for dir, mtime secs)

fn real_snapshot(root: &Path, rel: &str, out: &mut TreeSnap) {
    let Ok(rd) = std::fs::read_dir(root.join(rel)) else { return };
    for e in rd.flatten() {
        let name = e.file_name().to_string_lossy().into_owned();
        let p = if rel.is_empty() { name.clone() } else { format!("{rel}/{name}") };
        let Ok(m) = e.metadata() else { continue };
        let mt = m.modified().ok().and_then(|t| t.duration_since(UNIX_EPOCH).ok()).map_or(0, |d| d.as_secs());
        if m.is_dir() {
            out.insert(p.clone(), (None, 0));
            real_snapshot(root, &p, out);
        } else {
            out.insert(p, (std::fs::read(e.path()).ok(), mt));
        }
    }
}

fn sim_snapshot(w: &World, host: &str, root: &str) -> TreeSnap {
    let mut out = TreeSnap::new();
    for d in w.fs(host).dirs(root) {
        out.insert(d, (None, 0));
    }
    for (p, (b, m)) in w.fs(host).tree(root) {
        out.insert(p, (Some(b), m / 1_000_000_000));
    }
    out
}

pub fn calibrate(n: u64, seed: u64) -> i32 {
    let base = std::env::temp_dir().join(format!("simcheck-calib-{}", std::process::id()));
    let _ = std::fs::remove_dir_all(&base);
    let mut mismatches = 0u64;
    let mut done = 0u64;
    for i in 0..n {
        let mut r = Rng::new(copia_simworld::rng::derive(seed, "calib", i));
        let rootp = base.join(format!("c{i}/ro ot'x"));
        let home = base.join(format!("c{i}/home"));
        let root = rootp.to_string_lossy().into_owned();
        let case = gen_case(&mut r, &root);
        // --- real side
        if std::fs::create_dir_all(&rootp).is_err() || std::fs::create_dir_all(&home).is_err() {
            eprintln!("calib: cannot create scratch dir");
            return 2;
        }
        let mut w = World::new();
        let t0 = w.clock_ns;
        w.host("remote").mkdir_p(&root, t0);
        w.host("remote").mkdir_p(crate::stubs::REMOTE_HOME, t0);
        w.host("local").mkdir_p("/home/u", t0);
        for d in &case.dirs {
            let _ = std::fs::create_dir_all(rootp.join(d));
            w.host("remote").mkdir_p(&format!("{root}/{d}"), t0);
        }
        for (p, b, s, ns) in &case.files {
            let full = rootp.join(p);
            if let Some(par) = full.parent() {
                let _ = std::fs::create_dir_all(par);
            }
            if std::fs::write(&full, b).is_err() {
                continue;
            }
            if let Ok(f) = std::fs::File::options().write(true).open(&full) {
                let _ = f.set_modified(UNIX_EPOCH + Duration::new(*s, *ns));
            }
            w.host("remote").put_file(&format!("{root}/{p}"), b, s * 1_000_000_000 + u64::from(*ns));
        }
        let mut before = TreeSnap::new();
        real_snapshot(&rootp, "", &mut before);
        let child = Command::new("bash").arg("-c").arg(&case.cmd).current_dir(&home).stdin(Stdio::piped()).stdout(Stdio::piped()).stderr(Stdio::piped()).spawn();
        let Ok(mut child) = child else {
            eprintln!("calib: cannot run bash");
            return 2;
        };
        if let Some(mut si) = child.stdin.take() {
            let _ = si.write_all(&case.stdin);
        }
        let Ok(ro) = child.wait_with_output() else { return 2 };
        let real_status = ro.status.code().unwrap_or(-1);
        let mut real_tree = TreeSnap::new();
        real_snapshot(&rootp, "", &mut real_tree);
        // stray effects in the "home" (cwd of the remote shell)
        let mut real_home = TreeSnap::new();
        real_snapshot(&home, "", &mut real_home);
        // --- sim side: the same command through the ssh stub
        let sim = Sim::new(w, RunCfg { seed: i, ..RunCfg::default() }, resolver());
        let inp = sim.pipe(Some(1 << 20));
        let data = case.stdin.clone();
        sim.spawn(TopSpawn {
            role: "feeder".into(),
            host: "local".into(),
            argv: vec!["feeder".into()],
            env: BTreeMap::new(),
            cwd: "/".into(),
            stdin: Fd::Null,
            stdout: Some(Fd::Pipe { id: inp, write: true }),
            stderr: None,
            program: Some(Box::new(move || {
                use copia_simworld::shim::std_io as sio;
                let _ = sio::stdout().write_all(&data);
                0
            })),
        });
        let cmd = case.cmd.clone();
        sim.spawn(TopSpawn {
            role: "ssh".into(),
            host: "local".into(),
            argv: vec!["ssh".into(), "remote".into(), cmd.clone()],
            env: env_of(&[("HOME", "/home/u")]),
            cwd: "/".into(),
            stdin: Fd::Pipe { id: inp, write: false },
            stdout: None,
            stderr: None,
            program: Some(crate::stubs::ssh_program(vec!["remote".into(), cmd])),
        });
        let out = sim.run();
        let sp = out.proc_by_role("ssh").expect("ssh proc");
        let sim_status = sp.code().unwrap_or(-1);
        let sim_tree = sim_snapshot(&out.world, "remote", &root);
        let sim_home = sim_snapshot(&out.world, "remote", crate::stubs::REMOTE_HOME);
        // --- compare
        let mut why = Vec::new();
        if (real_status == 0) != (sim_status == 0) {
            why.push(format!("exit status real={real_status} stub={sim_status}"));
        }
        let (mut a, mut b) = (ro.stdout.clone(), sp.stdout.clone());
        if case.ignore_stdout_order {
            let mut ra: Vec<&[u8]> = a.split(|c| *c == 0).collect();
            let mut rb: Vec<&[u8]> = b.split(|c| *c == 0).collect();
            ra.sort();
            rb.sort();
            let (ja, jb) = (ra.join(&0u8), rb.join(&0u8));
            a = ja;
            b = jb;
        }
        if a != b {
            why.push(format!("stdout real={:?} stub={:?}", String::from_utf8_lossy(&a), String::from_utf8_lossy(&b)));
        }
        // trees: same paths and bytes; mtimes compared only for files the command changed
        let keys: std::collections::BTreeSet<&String> = real_tree.keys().chain(sim_tree.keys()).collect();
        for k in keys {
            match (real_tree.get(k), sim_tree.get(k)) {
                (Some((rb_, rm)), Some((sb, sm))) => {
                    if rb_ != sb {
                        why.push(format!("content of {k:?} differs"));
                    } else if before.get(k).map(|x| x.1) != Some(*rm) && rb_.is_some() && rm != sm && cmd_sets_mtime(&case.cmd) && real_status == 0 && !k.ends_with(".copia-tmp") {
                        why.push(format!("mtime of {k:?}: real {rm} stub {sm}"));
                    }
                }
                (x, y) => why.push(format!("{k:?}: real {} stub {}", if x.is_some() { "present" } else { "absent" }, if y.is_some() { "present" } else { "absent" })),
            }
        }
        if real_home.keys().collect::<Vec<_>>() != sim_home.keys().collect::<Vec<_>>() {
            why.push(format!("stray effects in the login directory: real {:?} stub {:?}", real_home.keys().collect::<Vec<_>>(), sim_home.keys().collect::<Vec<_>>()));
        }
        done += 1;
        if !why.is_empty() {
            mismatches += 1;
            if mismatches <= 5 {
                eprintln!("CALIB MISMATCH case {i}: cmd={:?}\n  stdin={:?}\n  {}\n  real stderr: {}\n  stub stderr: {}", case.cmd, String::from_utf8_lossy(&case.stdin), why.join("\n  "), String::from_utf8_lossy(&ro.stderr).trim(), sp.err_str().trim());
            }
        }
        let _ = std::fs::remove_dir_all(base.join(format!("c{i}")));
    }
    let _ = std::fs::remove_dir_all(&base);
    println!("calibration: {done} command cases run by real bash and by the stub, {mismatches} mismatches");
    if mismatches == 0 {
        0
    } else {
        2
    }
}

fn cmd_sets_mtime(cmd: &str) -> bool {
    cmd.contains("touch -d")
}

// ------------------------------------------------------------------------------------
// SimFs vs. the real kernel
// ------------------------------------------------------------------------------------

/// Seeded sequences of file-system calls are applied both to SimFs and, through
/// `std::fs`, to the real kernel (scratch directory); every result (errno included) and
/// the final trees must agree.
pub fn calibrate_fs(n: u64, seed: u64) -> i32 {
    use copia_simworld::fs::{OpenFlags, SimFs};
    let base = std::env::temp_dir().join(format!("simcheck-fscalib-{}", std::process::id()));
    let _ = std::fs::remove_dir_all(&base);
    let names = ["a", "b", "d", "d/x", "d/e", "d/e/f", "a/z", "b/", "d/", "./a", "d/../a", "nope/q", "a/", "d/e/"];
    let mut mism = 0u64;
    let mut ops_total = 0u64;
    for i in 0..n {
        let mut r = Rng::new(copia_simworld::rng::derive(seed, "fscalib", i));
        let root = base.join(format!("c{i}"));
        if std::fs::create_dir_all(&root).is_err() {
            return 2;
        }
        let rs = root.to_string_lossy().into_owned();
        let mut sim = SimFs::new();
        sim.mkdir_p(&rs, 1);
        let mut log: Vec<String> = Vec::new();
        let errno = |e: &std::io::Error| e.raw_os_error().unwrap_or(-1);
        for _ in 0..r.urange(3, 14) {
            ops_total += 1;
            let p = *r.pick(&names);
            let q = *r.pick(&names);
            let (real, simr, what): (Result<String, i32>, Result<String, i32>, String) = match r.below(10) {
                9 => (
                    std::fs::hard_link(root.join(p), root.join(q)).map(|()| String::new()).map_err(|e| errno(&e)),
                    sim.link(&rs, p, q, 3).map(|_| String::new()).map_err(|e| errno(&e)),
                    format!("link {p} -> {q}"),
                ),
                0 => (
                    std::fs::create_dir(root.join(p)).map(|()| String::new()).map_err(|e| errno(&e)),
                    sim.mkdir(&rs, p, 2).map(|()| String::new()).map_err(|e| errno(&e)),
                    format!("mkdir {p}"),
                ),
                1 => {
                    let data = format!("data{}", r.below(100));
                    let real = std::fs::File::create(root.join(p)).and_then(|mut f| f.write_all(data.as_bytes())).map(|()| String::new()).map_err(|e| errno(&e));
                    let fl = OpenFlags { write: true, create: true, truncate: true, ..Default::default() };
                    let simr = sim
                        .open(&rs, p, fl, 2)
                        .and_then(|(ino, _)| {
                            let w = sim.write_at(ino, 0, data.as_bytes(), 2).map(|_| ());
                            sim.close(ino);
                            w
                        })
                        .map(|()| String::new())
                        .map_err(|e| errno(&e));
                    (real, simr, format!("create+write {p}"))
                }
                2 => (
                    std::fs::rename(root.join(p), root.join(q)).map(|()| String::new()).map_err(|e| errno(&e)),
                    sim.rename(&rs, p, q, 3).map(|_| String::new()).map_err(|e| errno(&e)),
                    format!("rename {p} -> {q}"),
                ),
                3 => (
                    std::fs::remove_file(root.join(p)).map(|()| String::new()).map_err(|e| errno(&e)),
                    sim.unlink(&rs, p, 3).map(|_| String::new()).map_err(|e| errno(&e)),
                    format!("unlink {p}"),
                ),
                4 => (
                    std::fs::remove_dir(root.join(p)).map(|()| String::new()).map_err(|e| errno(&e)),
                    sim.rmdir(&rs, p, 3).map(|()| String::new()).map_err(|e| errno(&e)),
                    format!("rmdir {p}"),
                ),
                5 => (
                    std::fs::metadata(root.join(p)).map(|m| format!("{}{}", if m.is_dir() { "d" } else { "f" }, if m.is_dir() { 0 } else { m.len() })).map_err(|e| errno(&e)),
                    sim.stat(&rs, p, true).map(|m| format!("{}{}", if m.kind == copia_simworld::fs::Kind::Dir { "d" } else { "f" }, if m.kind == copia_simworld::fs::Kind::Dir { 0 } else { m.len })).map_err(|e| errno(&e)),
                    format!("stat {p}"),
                ),
                6 => (
                    std::fs::read(root.join(p)).map(|b| String::from_utf8_lossy(&b).into_owned()).map_err(|e| errno(&e)),
                    sim.open(&rs, p, OpenFlags { read: true, ..Default::default() }, 3)
                        .and_then(|(ino, _)| {
                            let d = sim.read_at(ino, 0, 1 << 20);
                            sim.close(ino);
                            d
                        })
                        .map(|b| String::from_utf8_lossy(&b).into_owned())
                        .map_err(|e| errno(&e)),
                    format!("read {p}"),
                ),
                7 => (
                    std::fs::OpenOptions::new().write(true).create_new(true).open(root.join(p)).map(|_| String::new()).map_err(|e| errno(&e)),
                    sim.open(&rs, p, OpenFlags { write: true, create_new: true, ..Default::default() }, 3)
                        .map(|(ino, _)| {
                            sim.close(ino);
                            String::new()
                        })
                        .map_err(|e| errno(&e)),
                    format!("create_new {p}"),
                ),
                _ => (
                    std::fs::read_dir(root.join(p)).map(|rd| {
                        let mut v: Vec<String> = rd.flatten().map(|e| e.file_name().to_string_lossy().into_owned()).collect();
                        v.sort();
                        v.join(",")
                    }).map_err(|e| errno(&e)),
                    sim.readdir(&rs, p).map(|v| v.into_iter().map(|x| x.0).collect::<Vec<_>>().join(",")).map_err(|e| errno(&e)),
                    format!("readdir {p}"),
                ),
            };
            log.push(format!("{what}: real={real:?} sim={simr:?}"));
            if real != simr {
                mism += 1;
                if mism <= 6 {
                    eprintln!("FS CALIB MISMATCH case {i}:\n  {}", log.join("\n  "));
                }
                break;
            }
        }
        // final trees
        let mut rt = TreeSnap::new();
        real_snapshot(&root, "", &mut rt);
        let mut st = TreeSnap::new();
        for d in sim.dirs(&rs) {
            st.insert(d, (None, 0));
        }
        for (p, (b, _)) in sim.tree(&rs) {
            st.insert(p, (Some(b), 0));
        }
        let rt2: BTreeMap<String, Option<Vec<u8>>> = rt.into_iter().map(|(k, v)| (k, v.0)).collect();
        let st2: BTreeMap<String, Option<Vec<u8>>> = st.into_iter().map(|(k, v)| (k, v.0)).collect();
        if rt2 != st2 {
            mism += 1;
            if mism <= 6 {
                eprintln!("FS CALIB TREE MISMATCH case {i}:\n  {}\n  real {:?}\n  sim  {:?}", log.join("\n  "), rt2.keys().collect::<Vec<_>>(), st2.keys().collect::<Vec<_>>());
            }
        }
        let _ = std::fs::remove_dir_all(&root);
    }
    let _ = std::fs::remove_dir_all(&base);
    println!("fs calibration: {n} call sequences ({ops_total} calls) applied to the real kernel and to SimFs, {mism} mismatches");
    if mism == 0 {
        0
    } else {
        2
    }
}
