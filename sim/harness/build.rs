// Emits the #[path]-include of the real CLI entry file from $COPIA_REPO (default /repo),
// so the same harness can be pointed at a scratch copy for sensitivity experiments.
use std::io::Write;
fn main() {
    let repo = std::env::var("COPIA_REPO").unwrap_or_else(|_| "/repo".to_string());
    let out = std::env::var("OUT_DIR").unwrap();
    let main_rs = format!("{repo}/src/bin/copia/main.rs");
    let mut f = std::fs::File::create(format!("{out}/copia_main_include.rs")).unwrap();
    writeln!(
        f,
        "#[path = \"{main_rs}\"]\n#[allow(dead_code, unused, clippy::all)]\npub mod copia_main;"
    )
    .unwrap();
    println!("cargo:rerun-if-env-changed=COPIA_REPO");
    println!("cargo:rerun-if-changed={repo}/src/bin/copia");
    println!("cargo:rerun-if-changed={repo}/Cargo.toml");
    println!("cargo:rustc-env=COPIA_REPO_BUILT={repo}");
}
