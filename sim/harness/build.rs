// Emits the #[path]-include of the real CLI entry file from $COPIA_REPO (default /repo),
// so the same harness can be pointed at a scratch copy for sensitivity experiments.
//
// The CLI sources are compiled from a line-for-line copy under $OUT_DIR in which the inherent
// file-system METHODS of `std::path::Path` (`p.exists()`, `p.is_dir()`, `p.metadata()`,
// `p.canonicalize()`, ...) are renamed to `sim_<name>` — resolved by the extension traits of
// `copia_simworld::ext` to the simulated file system. (The module-level alias seam covers
// `std::fs::…` / `tokio::fs::…` functions; a method on a real `Path` would otherwise ask the
// real kernel and make such code silently inert under simulation.) Nothing else is changed and
// line numbers are preserved.
use std::io::Write;
use std::path::Path;

const METHODS: [&str; 10] = [
    "exists", "try_exists", "is_file", "is_dir", "is_symlink", "metadata", "symlink_metadata", "canonicalize", "read_dir", "read_link",
];

fn transform(src: &str) -> String {
    let mut s = src.to_string();
    for m in METHODS {
        s = s.replace(&format!(".{m}()"), &format!(".sim_{m}()"));
    }
    // bring the extension traits into scope next to the seam's alias line (same line: numbering kept)
    let marker = "use copia_simworld::shim::{";
    let glob = " #[allow(unused_imports)] use copia_simworld::ext::*;";
    let mut out = String::with_capacity(s.len() + 128);
    let mut done = false;
    for line in s.split_inclusive('\n') {
        if !done && line.contains(marker) && line.trim_end().ends_with(';') {
            let body = line.trim_end_matches('\n');
            out.push_str(body);
            out.push_str(glob);
            out.push('\n');
            done = true;
        } else {
            out.push_str(line);
        }
    }
    if !done {
        println!("cargo:warning=a CLI source file has no seam alias line: Path methods in it are not simulated");
    }
    out
}

fn copy_tree(from: &Path, to: &Path) {
    std::fs::create_dir_all(to).unwrap();
    for e in std::fs::read_dir(from).unwrap() {
        let e = e.unwrap();
        let p = e.path();
        let t = to.join(e.file_name());
        if p.is_dir() {
            copy_tree(&p, &t);
        } else if p.extension().map_or(false, |x| x == "rs") {
            let src = std::fs::read_to_string(&p).unwrap();
            std::fs::write(&t, transform(&src)).unwrap();
        } else {
            std::fs::copy(&p, &t).unwrap();
        }
    }
}

fn main() {
    let repo = std::env::var("COPIA_REPO").unwrap_or_else(|_| "/repo".to_string());
    let out = std::env::var("OUT_DIR").unwrap();
    let copy = format!("{out}/copia_src");
    let _ = std::fs::remove_dir_all(&copy);
    copy_tree(Path::new(&format!("{repo}/src/bin/copia")), Path::new(&copy));
    let main_rs = format!("{copy}/main.rs");
    let mut f = std::fs::File::create(format!("{out}/copia_main_include.rs")).unwrap();
    writeln!(
        f,
        "#[path = \"{main_rs}\"]\n#[allow(dead_code, unused, clippy::all)]\npub mod copia_main;"
    )
    .unwrap();
    println!("cargo:rerun-if-env-changed=COPIA_REPO");
    println!("cargo:rerun-if-changed={repo}/src/bin/copia");
    println!("cargo:rerun-if-changed={repo}/Cargo.toml");
    println!("cargo:rerun-if-changed=build.rs");
    println!("cargo:rustc-env=COPIA_REPO_BUILT={repo}");
}
