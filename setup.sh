#!/usr/bin/env bash
# Offline build of the simulator workspace from files on disk.
set -eu
cd "$(dirname "$0")"
export CARGO_NET_OFFLINE=true
export COPIA_REPO="${COPIA_REPO:-/repo}"
python3 tools/gen_shadow.py
mkdir -p sim/target evidence replays
( cd sim && cargo build --release --offline -p simcheck )
# stub conformance spot check (validates the stubs; never fails the setup)
( cd sim && ./target/release/simcheck calib 300 ) || echo "WARNING: stub calibration reported mismatches (see above)"
echo "setup ok"
